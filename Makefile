# Offline build of the verifier (x/tools v0.29.0 from the module cache).
export GOFLAGS=-mod=mod
export GOPROXY=off
export GOSUMDB=off
export GOTOOLCHAIN=local

setup: bin/govc

bin/govc: $(wildcard govc/*.go) govc/go.mod
	mkdir -p bin
	cd govc && go build -o ../bin/govc .

clean:
	rm -rf bin

.PHONY: setup clean
