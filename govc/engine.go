package main

import (
	"fmt"
	"go/ast"
	"go/token"
	"go/types"
	"sort"
	"strings"

	"golang.org/x/tools/go/packages"
)

// Val is a symbolic Go value: an SMT term together with its Go type.
type Val struct {
	T       types.Type
	S       string
	Sort    string
	IsNil   bool // the untyped nil literal
	Untyped bool // untyped numeric constant
	Tuple   []*Val
	Closure *ast.FuncLit
	// SA, when non-empty, is the form of a Boolean specification term to use
	// when the term is ASSUMED rather than proved: inside quantifiers the side
	// facts of the body (postconditions of assumed library functions, type
	// facts) are conjuncts there, hypotheses in S.  See forAssume.
	SA string
	// NaN, when non-empty, is the condition under which this floating-point
	// value is a NaN (only a quotient 0/0 produces one); comparisons read it
	NaN string
	// heap-allocated local (address taken): S is the Ref
}

type engineLimit struct{ msg string }

func limitf(format string, a ...interface{}) {
	panic(engineLimit{fmt.Sprintf(format, a...)})
}

type Engine struct {
	searchCache map[string]*searchHit
	transSort   *string
	allocNames  []string
	baseLocals  map[string][]string // function -> "name|type" of its locals on the recorded baseline
	pkg         *packages.Package
	fset        *token.FileSet
	info        *types.Info
	spec        *SpecFile
	sorts       *Sorts
	funcs       map[string]*ast.FuncDecl // key -> decl
	fobjs       map[*types.Func]string   // func object -> key

	ufs       map[string]string // name -> declaration
	ufOrder   []string
	axioms    []axiom           // spec-level facts with the symbols they mention
	specDefs  map[string]string // spec func name -> define-fun text
	specSig   map[string]*specSig
	specOrder []string

	tagOf map[string]int // dynamic type name -> interface tag

	modsets     map[string]*modset
	traceSigs   map[string][]types.Type
	scanningKey string

	timeoutQuick int
}

type axiom struct {
	name  string
	text  string
	lemma bool
	decls []string // constants declared while translating the fact
}

type specSig struct {
	params []types.Type
	result types.Type
	names  []string
}

// Obligation is one proof goal.
type Obligation struct {
	Fn    string
	Name  string
	Kind  string // post pre safe inv-init inv-step decr frame lemma cover
	Pos   string
	Tags  []string
	PC    *PC
	Goal  string
	NDecl int
	AxN   int // lemmas: only the first AxN-1 axioms may be used
	ctx   *FuncCtx
	// results
	Status  string // proved | failed | unknown | timeout
	Solver  string
	TimeS   float64
	Model   string
	Bytes   int
	Outputs map[string]string
	Text    string // source text of the clause
	Clause  *Clause
}

// FuncCtx is the per-function verification context.
type FuncCtx struct {
	eng           *Engine
	key           string
	decl          *ast.FuncDecl
	contract      *Contract
	decls         []string
	nfresh        int
	inCallPre     bool // evaluating a callee's requires clause at a call site
	obls          []*Obligation
	props         []string
	loopOrd       map[ast.Node]int
	entry         *State
	results       []*types.Var // result variables (named or synthesised)
	resNames      map[string]int
	paramAlias    map[string]*types.Var // header name -> real var
	paths         int
	inlineDepth   int
	heapLocals    map[*types.Var]bool
	limit         string
	lets          map[string]*Val
	obligSeq      map[string]int
	coverSeq      int
	declared      map[string]bool
	mapOwned      map[*types.Var]bool
	params        map[*types.Var]bool
	noVariant     []string
	curDecl       *ast.FuncDecl
	specEnv       map[string]*Val
	unfoldFacts   []string
	paramList     []paramInfo
	keySorts      map[string]string
	curCallArgs   []ast.Expr
	ghostStack    []map[string]*Val
	pendingWB     []writeBack
	observed      map[string]bool
	callOrd       map[*ast.CallExpr]int
	inAtCall      bool
	atCallExpr    *ast.CallExpr // the call an "at call" clause is being evaluated for (arg(k))
	atLit         map[*Clause]*ast.CallExpr
	renames       map[string]string   // baseline local name -> current name (pure renaming)
	sliceAlias    map[*types.Var]bool // local slice assigned from another slice (element, sub-slice, variable)
	specPostDepth int
	loopEntry     *State
	coveredLoops  map[int]bool
	lastVariadic  []*Val
	noMerge       bool
}

type State struct {
	vars   map[*types.Var]*Val
	heap   map[string]string
	pc     *PC
	guard  []string
	bound  map[string]*Val // spec-bound names (quantified vars, let, header aliases)
	old    *State          // entry state for old()
	facts  map[string]bool
	dead   bool
	frame  *frame
	allocs []string
}

// frame describes the function body being executed (for inlining).
type frame struct {
	decl    *ast.FuncDecl
	results []*types.Var
	retvals *[]retval
	parent  *frame
	closure bool
}

type retval struct {
	st   *State
	vals []*Val
}

func (s *State) clone() *State {
	n := &State{pc: s.pc, old: s.old, frame: s.frame, allocs: append([]string(nil), s.allocs...)}
	n.vars = make(map[*types.Var]*Val, len(s.vars))
	for k, v := range s.vars {
		n.vars[k] = v
	}
	n.heap = make(map[string]string, len(s.heap))
	for k, v := range s.heap {
		n.heap[k] = v
	}
	n.bound = make(map[string]*Val, len(s.bound))
	for k, v := range s.bound {
		n.bound[k] = v
	}
	n.facts = make(map[string]bool, len(s.facts))
	for k, v := range s.facts {
		n.facts[k] = v
	}
	n.guard = append([]string(nil), s.guard...)
	return n
}

func (s *State) assume(f string) {
	if f == tTrue || f == "" {
		return
	}
	g := mkAnd(s.guard...)
	f = mkImplies(g, f)
	if s.facts[f] {
		return
	}
	s.facts[f] = true
	s.pc = s.pc.push(f)
}

func (c *FuncCtx) fresh(prefix, sort string) string {
	c.nfresh++
	prefix = strings.Map(func(r rune) rune {
		if r >= 'a' && r <= 'z' || r >= 'A' && r <= 'Z' || r >= '0' && r <= '9' || r == '_' {
			return r
		}
		return '_'
	}, prefix)
	n := fmt.Sprintf("%s!%d", prefix, c.nfresh)
	c.decls = append(c.decls, fmt.Sprintf("(declare-const %s %s)", n, sort))
	return n
}

// ---------------------------------------------------------------- sorts ---

func (e *Engine) sortOf(t types.Type) string {
	switch u := t.(type) {
	case *types.Named:
		obj := u.Obj()
		if obj.Pkg() != nil && obj.Pkg() != e.pkg.Types {
			// foreign named type
			switch obj.Pkg().Path() + "." + obj.Name() {
			case "time.Duration", "reflect.Kind", "reflect.Type":
				return "Int"
			}
			if _, isIface := u.Underlying().(*types.Interface); isIface {
				return "Iface"
			}
			if b, isBasic := u.Underlying().(*types.Basic); isBasic {
				return e.sortOf(b) // e.g. reflect.StructTag is a string
			}
			return "Int" // opaque handle
		}
		if st, ok := u.Underlying().(*types.Struct); ok {
			return e.structSort(obj.Name(), st)
		}
		return e.sortOf(u.Underlying())
	case *types.Alias:
		return e.sortOf(types.Unalias(u))
	case *types.Basic:
		switch {
		case u.Info()&types.IsBoolean != 0:
			return "Bool"
		case u.Info()&types.IsInteger != 0:
			return "Int"
		case u.Info()&types.IsFloat != 0:
			return "Real"
		case u.Info()&types.IsString != 0:
			return "String"
		case u.Kind() == types.UntypedNil:
			return "Int"
		case u.Kind() == types.UnsafePointer:
			return "Int"
		}
	case *types.Pointer:
		if e.isHeapStruct(u.Elem()) {
			return "Int"
		}
		return e.sorts.opt(e.sortOf(u.Elem()))
	case *types.Slice:
		return e.sorts.slice(e.sortOf(u.Elem()))
	case *types.Array:
		return e.sorts.slice(e.sortOf(u.Elem()))
	case *types.Map:
		return e.sorts.mapOf(e.sortOf(u.Key()), e.sortOf(u.Elem()))
	case *types.Interface:
		return "Iface"
	case *types.Signature:
		return "Int"
	case *types.Struct:
		return e.structSort(fmt.Sprintf("anon%d", u.NumFields()), u)
	case *types.Tuple:
		return "Int"
	}
	limitf("unsupported type %s", t)
	return ""
}

// isHeapStruct: pointers to the package's own struct types are references
// into the field-array heap.
func (e *Engine) isHeapStruct(t types.Type) bool {
	n, ok := t.(*types.Named)
	if !ok {
		return false
	}
	if n.Obj().Pkg() != e.pkg.Types {
		return false
	}
	_, ok = n.Underlying().(*types.Struct)
	return ok
}

func (e *Engine) structSort(name string, st *types.Struct) string {
	n := "St_" + sortIdent(name)
	if e.sorts.seen[n] {
		return n
	}
	var fs, ss []string
	for i := 0; i < st.NumFields(); i++ {
		f := st.Field(i)
		fs = append(fs, f.Name())
		ss = append(ss, e.sortOf(f.Type()))
	}
	return e.sorts.structOf(name, fs, ss)
}

func structName(t types.Type) string {
	if p, ok := t.(*types.Pointer); ok {
		t = p.Elem()
	}
	if n, ok := t.(*types.Named); ok {
		return n.Obj().Name()
	}
	if a, ok := t.(*types.Alias); ok {
		return structName(types.Unalias(a))
	}
	if st, ok := t.(*types.Struct); ok {
		return fmt.Sprintf("anon%d", st.NumFields())
	}
	return "?"
}

func (e *Engine) zero(t types.Type) string {
	return e.zeroOfSort(e.sortOf(t), t)
}

func (e *Engine) zeroOfSort(s string, t types.Type) string {
	switch s {
	case "Int":
		return "0"
	case "Bool":
		return tFalse
	case "String":
		return `""`
	case "Real":
		return "0.0"
	case "Iface":
		return "(mk_Iface 0 0)"
	}
	switch {
	case strings.HasPrefix(s, "Sl_"):
		var et types.Type
		switch u := under(t).(type) {
		case *types.Slice:
			et = u.Elem()
		case *types.Array:
			et = u.Elem()
		}
		es := e.sortOf(et)
		return fmt.Sprintf("(mk_%s ((as const (Array Int %s)) %s) 0 0 true)", s, es, e.zeroOfSort(es, et))
	case strings.HasPrefix(s, "Mp_"):
		m := under(t).(*types.Map)
		ks, vs := e.sortOf(m.Key()), e.sortOf(m.Elem())
		return fmt.Sprintf("(mk_%s ((as const (Array %s Bool)) false) ((as const (Array %s %s)) %s) true)", s, ks, ks, vs, e.zeroOfSort(vs, m.Elem()))
	case strings.HasPrefix(s, "Opt_"):
		return "none_" + s
	case strings.HasPrefix(s, "St_"):
		st := under(t).(*types.Struct)
		if st.NumFields() == 0 {
			return "(mk_" + s + " 0)"
		}
		var fs []string
		for i := 0; i < st.NumFields(); i++ {
			fs = append(fs, e.zero(st.Field(i).Type()))
		}
		return "(mk_" + s + " " + strings.Join(fs, " ") + ")"
	}
	limitf("no zero value for sort %s", s)
	return ""
}

func under(t types.Type) types.Type {
	if t == nil {
		return nil
	}
	return t.Underlying()
}

// ---------------------------------------------------------------- heap ---

func heapKey(structName, field string) string { return structName + "." + field }

func (c *FuncCtx) heapArr(st *State, sname, field string, ft types.Type) string {
	k := heapKey(sname, field)
	if a, ok := st.heap[k]; ok {
		return a
	}
	// first touch on this path: the entry-state array, whose name is fixed so
	// that all paths and old() share it.
	name := fmt.Sprintf("H_%s_%s", sname, field)
	c.declOnce(name, fmt.Sprintf("(Array Int %s)", c.eng.sortOf(ft)))
	c.noteKeySort(k, fmt.Sprintf("(Array Int %s)", c.eng.sortOf(ft)))
	st.heap[k] = name
	return name
}

func (c *FuncCtx) declOnce(name, sort string) {
	if c.declared == nil {
		c.declared = map[string]bool{}
	}
	if c.declared[name] {
		return
	}
	c.declared[name] = true
	c.decls = append(c.decls, fmt.Sprintf("(declare-const %s %s)", name, sort))
}

// typeFacts returns range/shape facts that hold for every value of Go type t.
func (e *Engine) typeFacts(term string, t types.Type) string {
	if t == nil {
		return tTrue
	}
	switch u := under(t).(type) {
	case *types.Basic:
		switch u.Kind() {
		case types.Int, types.Int64:
			// 64-bit signed arithmetic is treated as mathematical (stated
			// assumption): no range fact, no overflow obligation
			return tTrue
		case types.Int32:
			return mkAnd(app("<=", "(- 2147483648)", term), app("<=", term, "2147483647"))
		case types.Int16:
			return mkAnd(app("<=", "(- 32768)", term), app("<=", term, "32767"))
		case types.Int8:
			return mkAnd(app("<=", "(- 128)", term), app("<=", term, "127"))
		case types.Uint, types.Uint64, types.Uintptr:
			return app("<=", "0", term)
		case types.Uint32:
			return mkAnd(app("<=", "0", term), app("<=", term, "4294967295"))
		case types.Uint16:
			return mkAnd(app("<=", "0", term), app("<=", term, "65535"))
		case types.Uint8:
			return mkAnd(app("<=", "0", term), app("<=", term, "255"))
		}
	case *types.Slice:
		s := e.sortOf(t)
		return mkAnd(app("<=", "0", acc("off_"+s, term)), app("<=", "0", acc("len_"+s, term)),
			mkImplies(acc("nil_"+s, term), mkEq(acc("len_"+s, term), "0")))
	case *types.Pointer:
		if e.isHeapStruct(u.Elem()) {
			return app("<=", "0", term)
		}
	case *types.Signature:
		return app("<=", "0", term)
	case *types.Interface:
		if e.sortOf(t) != "Iface" {
			return tTrue
		}
		// the nil interface value is unique
		return mkImplies(mkEq(app("tag_Iface", term), "0"), mkEq(app("ref_Iface", term), "0"))
	}
	return tTrue
}

// maxLenLit: no Go string or slice is longer than the address space allows.
// (Trusted: 2^48 bytes; makes every index/length addition overflow-free.)
const maxLenLit = "281474976710656"

// ---------------------------------------------------------- obligations ---

// splitGoal breaks a goal into its top-level conjuncts ((and a b), (=> h (and a b)))
// so that each is decided by its own, smaller query.
func splitGoal(g string) []string {
	if strings.HasPrefix(g, "(and ") {
		var out []string
		for _, p := range splitArgs(g[len("(and ") : len(g)-1]) {
			out = append(out, splitGoal(p)...)
		}
		return out
	}
	if strings.HasPrefix(g, "(=> ") {
		args := splitArgs(g[len("(=> ") : len(g)-1])
		if len(args) == 2 {
			parts := splitGoal(args[1])
			if len(parts) > 1 {
				var out []string
				for _, p := range parts {
					out = append(out, mkImplies(args[0], p))
				}
				return out
			}
		}
	}
	return []string{g}
}

func (c *FuncCtx) oblige(st *State, kind, name string, pos token.Pos, goal string, tags []string, text string) {
	if st.dead {
		return
	}
	if kind != "cover" {
		if parts := splitGoal(goal); len(parts) > 1 && len(parts) <= 12 {
			for _, p := range parts {
				c.oblige(st, kind, name, pos, p, tags, text)
			}
			return
		}
	}
	g := mkImplies(mkAnd(st.guard...), goal)
	if g == tTrue {
		// trivially true: still counted as discharged (by the generator)
		c.obls = append(c.obls, &Obligation{Fn: c.key, Name: c.uniq(name), Kind: kind, Pos: c.eng.posStr(pos), Tags: c.tagsOr(tags), Goal: tTrue, Status: "proved", Solver: "syntactic", ctx: c, Text: text})
		return
	}
	if st.facts[g] {
		c.obls = append(c.obls, &Obligation{Fn: c.key, Name: c.uniq(name), Kind: kind, Pos: c.eng.posStr(pos), Tags: c.tagsOr(tags), Goal: tTrue, Status: "proved", Solver: "syntactic", ctx: c, Text: text})
		return
	}
	c.obls = append(c.obls, &Obligation{Fn: c.key, Name: c.uniq(name), Kind: kind, Pos: c.eng.posStr(pos), Tags: c.tagsOr(tags), PC: st.pc, Goal: g, NDecl: len(c.decls), ctx: c, Text: text})
}

// uniq: obligation names are "<fn>.<what>" ; several paths may reach the same
// program point, so instances are grouped under one name with a path suffix
// handled at reporting time.
func (c *FuncCtx) uniq(name string) string {
	return c.key + "." + name
}

func (c *FuncCtx) tagsOr(tags []string) []string {
	if len(tags) > 0 {
		return tags
	}
	return c.props
}

func (e *Engine) posStr(p token.Pos) string {
	if !p.IsValid() {
		return ""
	}
	ps := e.fset.Position(p)
	f := ps.Filename
	if i := strings.LastIndex(f, "/"); i >= 0 {
		f = f[i+1:]
	}
	return fmt.Sprintf("%s:%d", f, ps.Line)
}

func (e *Engine) line(p token.Pos) int {
	return e.fset.Position(p).Line
}

// funcKey: "name" or "Recv.name".
func funcKey(fd *ast.FuncDecl) string {
	if fd.Recv != nil && len(fd.Recv.List) == 1 {
		return recvTypeName(fd.Recv.List[0].Type) + "." + fd.Name.Name
	}
	return fd.Name.Name
}

func (e *Engine) index() {
	e.funcs = map[string]*ast.FuncDecl{}
	e.fobjs = map[*types.Func]string{}
	for _, f := range e.pkg.Syntax {
		fn := e.fset.Position(f.Pos()).Filename
		if strings.HasSuffix(fn, "_test.go") {
			continue
		}
		for _, d := range f.Decls {
			if fd, ok := d.(*ast.FuncDecl); ok && fd.Body != nil {
				k := funcKey(fd)
				e.funcs[k] = fd
				if obj, ok := e.info.Defs[fd.Name].(*types.Func); ok {
					e.fobjs[obj] = k
				}
				e.indexClosures(k, fd)
			}
		}
	}
}

// indexClosures makes the function literals that a function builds and hands
// out (assigned to a local or returned, not passed to an iterator) available as
// functions of their own, named <outer>_closure<n>: the parameters of the outer
// function (which the literal may capture) come first, then the literal's own.
// Literals that capture locals of the outer function are not supported as units.
func (e *Engine) indexClosures(outerKey string, outer *ast.FuncDecl) {
	n := 0
	var visit func(node ast.Node, depth int)
	visit = func(node ast.Node, depth int) {
		ast.Inspect(node, func(x ast.Node) bool {
			switch s := x.(type) {
			case *ast.CallExpr:
				// literals passed as arguments (iterators, sort.Slice, ...) are part of the caller
				for _, a := range s.Args {
					if _, isLit := a.(*ast.FuncLit); isLit {
						return false
					}
				}
			case *ast.FuncLit:
				if depth > 0 {
					return false
				}
				n++
				sigT, ok := e.info.TypeOf(s).(*types.Signature)
				if !ok {
					return false
				}
				osig, ok := e.info.Defs[outer.Name].(*types.Func)
				if !ok {
					return false
				}
				os := osig.Type().(*types.Signature)
				var params []*types.Var
				plist := &ast.FieldList{}
				if outer.Type.Params != nil {
					plist.List = append(plist.List, outer.Type.Params.List...)
				}
				for i := 0; i < os.Params().Len(); i++ {
					params = append(params, os.Params().At(i))
				}
				if s.Type.Params != nil {
					plist.List = append(plist.List, s.Type.Params.List...)
				}
				for i := 0; i < sigT.Params().Len(); i++ {
					params = append(params, sigT.Params().At(i))
				}
				name := fmt.Sprintf("%s_closure%d", outer.Name.Name, n)
				id := &ast.Ident{NamePos: s.Pos(), Name: name}
				decl := &ast.FuncDecl{Recv: outer.Recv, Name: id, Type: &ast.FuncType{Func: s.Type.Func, Params: plist, Results: s.Type.Results}, Body: s.Body}
				nsig := types.NewSignatureType(os.Recv(), nil, nil, types.NewTuple(params...), sigT.Results(), false)
				obj := types.NewFunc(s.Pos(), e.pkg.Types, name, nsig)
				e.info.Defs[id] = obj
				k := funcKey(decl)
				e.funcs[k] = decl
				e.fobjs[obj] = k
				return false
			}
			return true
		})
	}
	visit(outer.Body, 0)
}

func (e *Engine) funcKeys() []string {
	ks := make([]string, 0, len(e.funcs))
	for k := range e.funcs {
		ks = append(ks, k)
	}
	sort.Strings(ks)
	return ks
}

// dynamic type tags for interface values
func (e *Engine) tagFor(t types.Type) int {
	name := types.TypeString(t, func(p *types.Package) string {
		if p == e.pkg.Types {
			return ""
		}
		return p.Name()
	})
	if n, ok := e.tagOf[name]; ok {
		return n
	}
	n := len(e.tagOf) + 1
	e.tagOf[name] = n
	return n
}

func (e *Engine) declareUF(name, decl string) {
	if _, ok := e.ufs[name]; ok {
		return
	}
	e.ufs[name] = decl
	e.ufOrder = append(e.ufOrder, name)
}

func (c *FuncCtx) noteKeySort(k, sort string) {
	if c.keySorts == nil {
		c.keySorts = map[string]string{}
	}
	c.keySorts[k] = sort
}

// forAssume: the term to assume for a Boolean specification value.
func (v *Val) forAssume() string {
	if v.SA != "" {
		return v.SA
	}
	return v.S
}

// localsOf lists the parameters, results and local variables of a function in
// declaration order, each as "name|type".
func (e *Engine) localsOf(fd *ast.FuncDecl) []string {
	var out []string
	seen := map[*types.Var]bool{}
	q := func(p *types.Package) string { return p.Name() }
	add := func(id *ast.Ident) {
		if id == nil || id.Name == "_" {
			return
		}
		if v, ok := e.info.Defs[id].(*types.Var); ok && v != nil && !seen[v] {
			seen[v] = true
			out = append(out, id.Name+"|"+types.TypeString(v.Type(), q))
		}
	}
	ast.Inspect(fd, func(x ast.Node) bool {
		if id, ok := x.(*ast.Ident); ok {
			add(id)
		}
		return true
	})
	return out
}

// renamesFor: if the function has exactly the locals recorded on the baseline -
// same number, same types, in the same order - but some carry other names, the
// contract (which names locals in its loop invariants) is read with the old
// names mapped to the new ones.  Anything else (a local added, removed,
// retyped) gives no mapping.
func (e *Engine) renamesFor(key string, fd *ast.FuncDecl) map[string]string {
	old, ok := e.baseLocals[key]
	if !ok {
		return nil
	}
	cur := e.localsOf(fd)
	if len(cur) != len(old) {
		return nil
	}
	m := map[string]string{}
	for i := range cur {
		on, ot, _ := strings.Cut(old[i], "|")
		cn, ct, _ := strings.Cut(cur[i], "|")
		if ot != ct {
			return nil
		}
		if on != cn {
			if prev, dup := m[on]; dup && prev != cn {
				return nil // one old name, two new names (shadowing): ambiguous
			}
			m[on] = cn
		}
	}
	if len(m) == 0 {
		return nil
	}
	return m
}
