package main

// Ghost call traces. A contract marked "traced" makes the engine record every
// call of that function (receiver and arguments) in an append-only ghost
// sequence. Specifications read it with ncalls(F) and callarg(F, i, k); the
// sequence is part of the may-modify set of every function that can reach a
// call of F, so callers learn about it only through callee contracts.

import (
	"fmt"
	"go/ast"
	"go/types"
	"strings"
)

func traceKey(f string) string { return "τ|" + f }

func isTraceKey(k string) bool { return strings.HasPrefix(k, "τ|") }

func traceIdent(f string) string {
	return sortIdent(strings.NewReplacer(".", "_", "*", "").Replace(f))
}

// traceSig: the types recorded per call (receiver first).
// foreignMethod resolves "pkg.Type.Method" to the method object and its receiver type.
func (e *Engine) foreignMethod(f string) (*types.Func, types.Type) {
	parts := strings.Split(f, ".")
	if len(parts) != 3 {
		return nil, nil
	}
	for _, imp := range e.pkg.Types.Imports() {
		if imp.Name() == parts[0] {
			if tn, ok := imp.Scope().Lookup(parts[1]).(*types.TypeName); ok {
				obj, _, _ := types.LookupFieldOrMethod(tn.Type(), true, imp, parts[2])
				if fn, ok := obj.(*types.Func); ok {
					recv := tn.Type()
					if sig, ok := fn.Type().(*types.Signature); ok && sig.Recv() != nil {
						if _, isPtr := sig.Recv().Type().(*types.Pointer); isPtr {
							recv = types.NewPointer(tn.Type())
						}
					}
					return fn, recv
				}
			}
		}
	}
	return nil, nil
}

func (e *Engine) traceSig(f string) []types.Type {
	if s, ok := e.traceSigs[f]; ok {
		return s
	}
	if strings.HasPrefix(f, "tick$") {
		return nil
	}
	var out []types.Type
	if fn, recv := e.foreignMethod(f); fn != nil {
		sig := fn.Type().(*types.Signature)
		out = append(out, recv)
		for k := 0; k < sig.Params().Len(); k++ {
			out = append(out, sig.Params().At(k).Type())
		}
		if e.traceSigs == nil {
			e.traceSigs = map[string][]types.Type{}
		}
		e.traceSigs[f] = out
		return out
	}
	if fd, ok := e.funcs[f]; ok {
		sig := e.info.Defs[fd.Name].(*types.Func).Type().(*types.Signature)
		if sig.Recv() != nil {
			out = append(out, sig.Recv().Type())
		}
		for i := 0; i < sig.Params().Len(); i++ {
			out = append(out, sig.Params().At(i).Type())
		}
	} else if i := strings.LastIndex(f, "."); i > 0 {
		// imported function pkg.Func
		for _, imp := range e.pkg.Types.Imports() {
			if imp.Name() == f[:i] {
				if fn, ok := imp.Scope().Lookup(f[i+1:]).(*types.Func); ok {
					sig := fn.Type().(*types.Signature)
					for k := 0; k < sig.Params().Len(); k++ {
						out = append(out, sig.Params().At(k).Type())
					}
				}
			}
		}
		// Type.Method (interface) or Struct.field (func value)
		tn, _ := e.pkg.Types.Scope().Lookup(f[:i]).(*types.TypeName)
		if tn != nil {
			obj, _, _ := types.LookupFieldOrMethod(tn.Type(), true, e.pkg.Types, f[i+1:])
			switch o := obj.(type) {
			case *types.Func:
				sig := o.Type().(*types.Signature)
				out = append(out, tn.Type())
				for k := 0; k < sig.Params().Len(); k++ {
					out = append(out, sig.Params().At(k).Type())
				}
			case *types.Var:
				if sig, ok := under(o.Type()).(*types.Signature); ok {
					for k := 0; k < sig.Params().Len(); k++ {
						out = append(out, sig.Params().At(k).Type())
					}
				}
			}
		}
	}
	if e.traceSigs == nil {
		e.traceSigs = map[string][]types.Type{}
	}
	e.traceSigs[f] = out
	return out
}

func (c *FuncCtx) traceN(st *State, f string) string {
	k := traceKey(f) + "|n"
	if t, ok := st.heap[k]; ok {
		return t
	}
	name := "T_" + traceIdent(f) + "_n"
	c.declOnce(name, "Int")
	c.noteKeySort(k, "Int")
	st.heap[k] = name
	st.assume(app("<=", "0", name))
	return name
}

func (c *FuncCtx) traceArr(st *State, f string, i int) string {
	k := fmt.Sprintf("%s|%d", traceKey(f), i)
	if t, ok := st.heap[k]; ok {
		return t
	}
	sig := c.eng.traceSig(f)
	if i >= len(sig) {
		limitf("trace %s has no argument %d", f, i)
	}
	name := fmt.Sprintf("T_%s_a%d", traceIdent(f), i)
	c.declOnce(name, fmt.Sprintf("(Array Int %s)", c.eng.sortOf(sig[i])))
	c.noteKeySort(k, fmt.Sprintf("(Array Int %s)", c.eng.sortOf(sig[i])))
	st.heap[k] = name
	return name
}

// traceClock is a global ghost counter ticking at every traced call.
func (c *FuncCtx) traceClock(st *State) string {
	k := "τ|$clock"
	if t, ok := st.heap[k]; ok {
		return t
	}
	c.declOnce("T_clock", "Int")
	c.noteKeySort(k, "Int")
	st.heap[k] = "T_clock"
	return "T_clock"
}

func (c *FuncCtx) traceTime(st *State, f string) string {
	k := traceKey(f) + "|t"
	if t, ok := st.heap[k]; ok {
		return t
	}
	name := "T_" + traceIdent(f) + "_time"
	c.declOnce(name, "(Array Int Int)")
	c.noteKeySort(k, "(Array Int Int)")
	st.heap[k] = name
	return name
}

// traceRes: array of the i-th result of each recorded call.
func (c *FuncCtx) traceRes(st *State, f string, i int, sort string) string {
	k := fmt.Sprintf("%s|r%d", traceKey(f), i)
	if t, ok := st.heap[k]; ok {
		return t
	}
	name := fmt.Sprintf("T_%s_r%d", traceIdent(f), i)
	c.declOnce(name, fmt.Sprintf("(Array Int %s)", sort))
	c.noteKeySort(k, fmt.Sprintf("(Array Int %s)", sort))
	st.heap[k] = name
	return name
}

func (e *Engine) traceResSig(f string) []types.Type {
	var out []types.Type
	if strings.HasPrefix(f, "tick$") {
		return nil
	}
	if fn, _ := e.foreignMethod(f); fn != nil {
		sig := fn.Type().(*types.Signature)
		for k := 0; k < sig.Results().Len(); k++ {
			out = append(out, sig.Results().At(k).Type())
		}
		return out
	}
	if fd, ok := e.funcs[f]; ok {
		sig := e.info.Defs[fd.Name].(*types.Func).Type().(*types.Signature)
		for i := 0; i < sig.Results().Len(); i++ {
			out = append(out, sig.Results().At(i).Type())
		}
		return out
	}
	if i := strings.LastIndex(f, "."); i > 0 {
		for _, imp := range e.pkg.Types.Imports() {
			if imp.Name() == f[:i] {
				if fn, ok := imp.Scope().Lookup(f[i+1:]).(*types.Func); ok {
					sig := fn.Type().(*types.Signature)
					for k := 0; k < sig.Results().Len(); k++ {
						out = append(out, sig.Results().At(k).Type())
					}
					return out
				}
			}
		}
		if tn, _ := e.pkg.Types.Scope().Lookup(f[:i]).(*types.TypeName); tn != nil {
			obj, _, _ := types.LookupFieldOrMethod(tn.Type(), true, e.pkg.Types, f[i+1:])
			var sig *types.Signature
			switch o := obj.(type) {
			case *types.Func:
				sig = o.Type().(*types.Signature)
			case *types.Var:
				sig, _ = under(o.Type()).(*types.Signature)
			}
			if sig != nil {
				for k := 0; k < sig.Results().Len(); k++ {
					out = append(out, sig.Results().At(k).Type())
				}
			}
		}
	}
	return out
}

// traceFails: ghost counter of the recorded calls whose first result (an
// error) was non-nil.
func (c *FuncCtx) traceFails(st *State, f string) string {
	k := traceKey(f) + "|f"
	if t, ok := st.heap[k]; ok {
		return t
	}
	name := "T_" + traceIdent(f) + "_fails"
	c.declOnce(name, "Int")
	c.noteKeySort(k, "Int")
	st.heap[k] = name
	st.assume(app("<=", "0", name))
	return name
}

// traceResults records the results of the call just appended.
func (c *FuncCtx) traceResults(st *State, f string, results []*Val) {
	rs := c.eng.traceResSig(f)
	if len(rs) > 0 && len(results) > 0 && c.eng.sortOf(rs[0]) == "Iface" {
		nf := c.traceFails(st, f)
		st.heap[traceKey(f)+"|f"] = mkAdd(nf, mkIte(mkEq(app("tag_Iface", results[0].S), "0"), "0", "1"))
	}
	n := c.traceN(st, f) // already incremented
	at := mkSub(n, "1")
	for i, rt := range rs {
		if i >= len(results) {
			break
		}
		srt := c.eng.sortOf(rt)
		arr := c.traceRes(st, f, i, srt)
		st.heap[fmt.Sprintf("%s|r%d", traceKey(f), i)] = c.shareTerm(st, mkStore(arr, at, results[i].S), fmt.Sprintf("(Array Int %s)", srt), "T_"+traceIdent(f))
	}
}

func (c *FuncCtx) traceAppend(st *State, f string, vals []*Val) {
	sig := c.eng.traceSig(f)
	n := c.traceN(st, f)
	clk := c.traceClock(st)
	st.heap[traceKey(f)+"|t"] = mkStore(c.traceTime(st, f), n, clk)
	st.heap["τ|$clock"] = mkAdd(clk, "1")
	for i := range sig {
		if i >= len(vals) {
			break
		}
		arr := c.traceArr(st, f, i)
		v := c.coerce(st, vals[i], sig[i])
		st.heap[fmt.Sprintf("%s|%d", traceKey(f), i)] = c.shareTerm(st, mkStore(arr, n, v.S), fmt.Sprintf("(Array Int %s)", c.eng.sortOf(sig[i])), "T_"+traceIdent(f))
	}
	st.heap[traceKey(f)+"|n"] = mkAdd(n, "1")
}

// observesTrace: does the contract of the function under verification talk
// about individual records (arguments, results, times) of trace f? Only then
// are the "recorded prefix is unchanged" facts worth stating at a havoc; the
// counters ncalls/nfails are always tracked. (Leaving hypotheses out is sound.)
func (c *FuncCtx) observesTrace(f string) bool {
	if c.contract == nil {
		return false
	}
	if c.observed == nil {
		c.observed = map[string]bool{}
		for _, raw := range c.contract.rawTexts() {
			for _, kw := range []string{"callarg(", "callres(", "calltime("} {
				for i := 0; ; {
					j := strings.Index(raw[i:], kw)
					if j < 0 {
						break
					}
					i += j + len(kw)
					k := strings.IndexAny(raw[i:], ",)")
					if k > 0 {
						c.observed[strings.TrimSpace(raw[i:i+k])] = true
					}
				}
			}
		}
	}
	return c.observed[f]
}

// traceHavoc: the callee (or loop) may have appended any number of records.
func (c *FuncCtx) traceHavoc(st *State, f string) {
	sig := c.eng.traceSig(f)
	n := c.traceN(st, f)
	nn := c.fresh("T_"+traceIdent(f)+"_n", "Int")
	st.assume(app("<=", n, nn))
	if !c.observesTrace(f) {
		// forget the records, keep the counters
		for i := range sig {
			c.traceArr(st, f, i)
			st.heap[fmt.Sprintf("%s|%d", traceKey(f), i)] = c.fresh(fmt.Sprintf("T_%s_a%d", traceIdent(f), i), fmt.Sprintf("(Array Int %s)", c.eng.sortOf(sig[i])))
		}
		st.heap[traceKey(f)+"|n"] = nn
		c.traceTime(st, f)
		st.heap[traceKey(f)+"|t"] = c.fresh("T_"+traceIdent(f), "(Array Int Int)")
		for i, rt := range c.eng.traceResSig(f) {
			srt := c.eng.sortOf(rt)
			c.traceRes(st, f, i, srt)
			st.heap[fmt.Sprintf("%s|r%d", traceKey(f), i)] = c.fresh("T_"+traceIdent(f), fmt.Sprintf("(Array Int %s)", srt))
		}
		if rs := c.eng.traceResSig(f); len(rs) > 0 && c.eng.sortOf(rs[0]) == "Iface" {
			nf := c.traceFails(st, f)
			nnf := c.fresh("T_"+traceIdent(f)+"_fails", "Int")
			st.assume(mkAnd(app("<=", nf, nnf), app("<=", mkSub(nnf, nf), mkSub(nn, n))))
			st.heap[traceKey(f)+"|f"] = nnf
		}
		clk := c.traceClock(st)
		nclk := c.fresh("T_clock", "Int")
		st.assume(app("<=", clk, nclk))
		st.heap["τ|$clock"] = nclk
		return
	}
	for i := range sig {
		arr := c.traceArr(st, f, i)
		na := c.fresh(fmt.Sprintf("T_%s_a%d", traceIdent(f), i), fmt.Sprintf("(Array Int %s)", c.eng.sortOf(sig[i])))
		bv := c.bvar("i")
		st.assume(fmt.Sprintf("(forall ((%s Int)) (=> (and (<= 0 %s) (< %s %s)) (= (select %s %s) (select %s %s))))", bv, bv, bv, n, na, bv, arr, bv))
		st.heap[fmt.Sprintf("%s|%d", traceKey(f), i)] = na
	}
	st.heap[traceKey(f)+"|n"] = nn
	// times and results of the recorded prefix are kept as well
	keep := func(key, arr, sort string) {
		na := c.fresh("T_"+traceIdent(f), fmt.Sprintf("(Array Int %s)", sort))
		bv := c.bvar("i")
		st.assume(fmt.Sprintf("(forall ((%s Int)) (=> (and (<= 0 %s) (< %s %s)) (= (select %s %s) (select %s %s))))", bv, bv, bv, n, na, bv, arr, bv))
		st.heap[key] = na
	}
	told := c.traceTime(st, f)
	keep(traceKey(f)+"|t", told, "Int")
	for i, rt := range c.eng.traceResSig(f) {
		srt := c.eng.sortOf(rt)
		keep(fmt.Sprintf("%s|r%d", traceKey(f), i), c.traceRes(st, f, i, srt), srt)
	}
	if rs := c.eng.traceResSig(f); len(rs) > 0 && c.eng.sortOf(rs[0]) == "Iface" {
		nf := c.traceFails(st, f)
		nnf := c.fresh("T_"+traceIdent(f)+"_fails", "Int")
		st.assume(mkAnd(app("<=", nf, nnf), app("<=", mkSub(nnf, nf), mkSub(nn, n))))
		st.heap[traceKey(f)+"|f"] = nnf
	}
	// the clock moves forward; new records carry times in between
	clk := c.traceClock(st)
	nclk := c.fresh("T_clock", "Int")
	st.assume(app("<=", clk, nclk))
	st.heap["τ|$clock"] = nclk
	bv := c.bvar("i")
	st.assume(fmt.Sprintf("(forall ((%s Int)) (=> (and (<= %s %s) (< %s %s)) (and (<= %s (select %s %s)) (< (select %s %s) %s))))", bv, n, bv, bv, nn, clk, st.heap[traceKey(f)+"|t"], bv, st.heap[traceKey(f)+"|t"], bv, nclk))
}

// traceNameOf turns the first argument of ncalls/callarg (Option.Set, convert,
// Parser.CommandHandler) into a contract key.
func traceNameOf(x ast.Expr) string {
	switch y := x.(type) {
	case *ast.Ident:
		return y.Name
	case *ast.SelectorExpr:
		return traceNameOf(y.X) + "." + y.Sel.Name
	}
	limitf("bad trace name")
	return ""
}

func (c *FuncCtx) traceBuiltin(st *State, name string, x *ast.CallExpr) ([]*Val, bool) {
	switch name {
	case "ncalls":
		f := traceNameOf(x.Args[0])
		if con := c.eng.spec.Contracts[f]; con == nil || !con.Traced {
			limitf("ncalls(%s): no traced contract of that name", f)
		}
		return []*Val{{T: tInt, S: c.traceN(st, f), Sort: "Int"}}, true
	case "nfails":
		f := traceNameOf(x.Args[0])
		if con := c.eng.spec.Contracts[f]; con == nil || !con.Traced {
			limitf("nfails(%s): no traced contract of that name", f)
		}
		return []*Val{{T: tInt, S: c.traceFails(st, f), Sort: "Int"}}, true
	case "calltime":
		f := traceNameOf(x.Args[0])
		i := c.eval(st, x.Args[1])
		return []*Val{{T: tInt, S: mkSel(c.traceTime(st, f), i.S), Sort: "Int"}}, true
	case "callres":
		f := traceNameOf(x.Args[0])
		i := c.eval(st, x.Args[1])
		kv := c.eval(st, x.Args[2])
		k, ok := isIntLit(kv.S)
		rs := c.eng.traceResSig(f)
		if !ok || int(k) >= len(rs) {
			limitf("callres(%s, _, %s): bad result position", f, kv.S)
		}
		return []*Val{c.val(mkSel(c.traceRes(st, f, int(k), c.eng.sortOf(rs[k])), i.S), rs[k])}, true
	case "callarg":
		f := traceNameOf(x.Args[0])
		if con := c.eng.spec.Contracts[f]; con == nil || !con.Traced {
			limitf("callarg(%s): no traced contract of that name", f)
		}
		i := c.eval(st, x.Args[1])
		kv := c.eval(st, x.Args[2])
		k, ok := isIntLit(kv.S)
		if !ok {
			limitf("callarg: argument position must be a literal")
		}
		sig := c.eng.traceSig(f)
		if int(k) >= len(sig) {
			limitf("callarg(%s, _, %d): out of range", f, k)
		}
		return []*Val{c.val(mkSel(c.traceArr(st, f, int(k)), i.S), sig[k])}, true
	}
	return nil, false
}

// tickBase: the value of a ghost counter at function entry (counters start at
// zero; the trace counter they are stored in starts at an arbitrary value).
func (c *FuncCtx) tickBase(f string) string {
	return "T_" + traceIdent(f) + "_n"
}
