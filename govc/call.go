package main

import (
	"fmt"
	"go/ast"
	"go/token"
	"go/types"
	"sort"
	"strconv"
	"strings"
)

func (c *FuncCtx) inSpec(st *State) bool { return st.bound["$spec"] != nil }

// safe: a safety obligation (no panic at this point) followed by the
// assumption that it holds on the continuing path. Spec expressions are total
// (SMT semantics), so nothing is generated for them.
func (c *FuncCtx) safe(st *State, what string, pos token.Pos, goal, text string) {
	c.safeKind(st, "safe", what, pos, goal, text)
}

func (c *FuncCtx) safeKind(st *State, kind, what string, pos token.Pos, goal, text string) {
	if c.inSpec(st) {
		return
	}
	c.oblige(st, kind, fmt.Sprintf("safe@%s.%s", c.anchor(pos), what), pos, goal, nil, text)
	st.assume(goal)
}

// anchor names a program point in a way that survives edits elsewhere in the
// file: the ordinal of the statement inside its function would be ideal; the
// line relative to the function start is a cheap approximation.
func (c *FuncCtx) anchor(pos token.Pos) string {
	fd := c.decl
	if st := c.curDecl; st != nil {
		fd = st
	}
	if fd == nil || !pos.IsValid() {
		return "0"
	}
	return fmt.Sprintf("L%d", c.eng.line(pos)-c.eng.line(fd.Pos()))
}

func (c *FuncCtx) evalCall(st *State, x *ast.CallExpr) []*Val {
	c.atCall(st, x)
	// conversion?
	if tv, ok := c.eng.info.Types[x.Fun]; ok && tv.IsType() {
		v := c.eval(st, x.Args[0])
		return []*Val{c.convert(st, v, tv.Type, x.Pos())}
	}
	fun := ast.Unparen(x.Fun)
	switch f := fun.(type) {
	case *ast.Ident:
		if _, bound := st.bound[f.Name]; !bound {
			obj := c.eng.info.Uses[f]
			if obj == nil {
				obj = c.lookupSpecName(st, f.Name)
			}
			switch o := obj.(type) {
			case *types.Builtin:
				return c.builtin(st, o.Name(), x)
			case *types.TypeName:
				v := c.eval(st, x.Args[0])
				return []*Val{c.convert(st, v, o.Type(), x.Pos())}
			case *types.Func:
				if key, ok := c.eng.fobjs[o]; ok {
					return c.callRepo(st, key, nil, x)
				}
			case nil:
				if r, ok := c.specBuiltin(st, f.Name, x); ok {
					return r
				}
				if c.eng.isGhost(f.Name) {
					return []*Val{c.ghostRead(st, f.Name, x)}
				}
				if sf, ok := c.eng.spec.Funcs[f.Name]; ok {
					return []*Val{c.callSpecFunc(st, sf, x)}
				}
				if con := c.eng.spec.Contracts[f.Name]; con != nil && con.Assumed {
					// a spec-only (ghost) function declared by an assumed contract
					var ps, rs []*types.Var
					for _, fld := range con.Decl.Type.Params.List {
						t := c.resolveSpecType(fld.Type)
						for _, n := range fld.Names {
							ps = append(ps, types.NewVar(token.NoPos, nil, n.Name, t))
						}
					}
					if con.Decl.Type.Results != nil {
						for _, fld := range con.Decl.Type.Results.List {
							t := c.resolveSpecType(fld.Type)
							for _, n := range fld.Names {
								rs = append(rs, types.NewVar(token.NoPos, nil, n.Name, t))
							}
						}
					}
					sig := types.NewSignatureType(nil, nil, nil, types.NewTuple(ps...), types.NewTuple(rs...), false)
					var args []*Val
					for i, a := range x.Args {
						args = append(args, c.coerce(st, c.eval(st, a), ps[i].Type()))
					}
					return c.applyContract(st, con, sig, nil, args, x.Pos(), f.Name)
				}
				limitf("%s: unknown function %q", c.eng.posStr(x.Pos()), f.Name)
			case *types.Var:
				return c.callFuncValue(st, c.eval(st, f), c.key+"."+f.Name, x)
			}
		} else {
			return c.callFuncValue(st, st.bound[f.Name], c.key+"."+f.Name, x)
		}
	case *ast.SelectorExpr:
		return c.callSelector(st, f, x)
	case *ast.ArrayType, *ast.MapType, *ast.StarExpr, *ast.InterfaceType:
		// conversion written in a spec expression
		t := c.resolveSpecType(fun)
		v := c.eval(st, x.Args[0])
		return []*Val{c.convert(st, v, t, x.Pos())}
	case *ast.FuncLit:
		limitf("%s: immediately-invoked function literal", c.eng.posStr(x.Pos()))
	}
	limitf("%s: unsupported call", c.eng.posStr(x.Pos()))
	return nil
}

// flattenSel renders a.b.c as "a.b.c" ("" if it is not a pure selector chain).
func flattenSel(e ast.Expr) string {
	switch y := e.(type) {
	case *ast.Ident:
		return y.Name
	case *ast.SelectorExpr:
		if p := flattenSel(y.X); p != "" {
			return p + "." + y.Sel.Name
		}
	}
	return ""
}

func (c *FuncCtx) callGhost(st *State, con *Contract, key string, x *ast.CallExpr) []*Val {
	var ps, rs []*types.Var
	for _, fld := range con.Decl.Type.Params.List {
		t := c.resolveSpecType(fld.Type)
		for _, n := range fld.Names {
			ps = append(ps, types.NewVar(token.NoPos, nil, n.Name, t))
		}
	}
	if con.Decl.Type.Results != nil {
		for _, fld := range con.Decl.Type.Results.List {
			t := c.resolveSpecType(fld.Type)
			for _, n := range fld.Names {
				rs = append(rs, types.NewVar(token.NoPos, nil, n.Name, t))
			}
		}
	}
	sig := types.NewSignatureType(nil, nil, nil, types.NewTuple(ps...), types.NewTuple(rs...), false)
	var args []*Val
	for i, a := range x.Args {
		args = append(args, c.coerce(st, c.eval(st, a), ps[i].Type()))
	}
	return c.applyContract(st, con, sig, nil, args, x.Pos(), key)
}

func (c *FuncCtx) callSelector(st *State, f *ast.SelectorExpr, x *ast.CallExpr) []*Val {
	// a ghost function named by a dotted key (only in specifications)
	if c.inSpec(st) {
		if key := flattenSel(f); key != "" {
			root := key[:strings.IndexByte(key, '.')]
			if _, bound := st.bound[root]; !bound {
				if _, isType := c.eng.pkg.Types.Scope().Lookup(root).(*types.TypeName); isType {
					if con := c.eng.spec.Contracts[key]; con != nil && con.Assumed {
						if _, real := c.eng.funcs[key]; !real {
							return c.callGhost(st, con, key, x)
						}
					}
				}
			}
		}
	}
	// package function?
	if id, ok := f.X.(*ast.Ident); ok {
		if _, bound := st.bound[id.Name]; !bound {
			var pn *types.PkgName
			if o, ok := c.eng.info.Uses[id]; ok {
				pn, _ = o.(*types.PkgName)
			} else if c.eng.info.Defs[id] == nil {
				switch o := c.lookupSpecName(st, id.Name).(type) {
				case *types.PkgName:
					pn = o
				case nil:
					for _, imp := range c.eng.pkg.Types.Imports() {
						if imp.Name() == id.Name {
							pn = types.NewPkgName(token.NoPos, c.eng.pkg.Types, imp.Name(), imp)
						}
					}
				}
			}
			if pn != nil {
				key := pn.Imported().Name() + "." + f.Sel.Name
				o := pn.Imported().Scope().Lookup(f.Sel.Name)
				if tn, ok := o.(*types.TypeName); ok {
					v := c.eval(st, x.Args[0])
					return []*Val{c.convert(st, v, tn.Type(), x.Pos())}
				}
				fn, _ := o.(*types.Func)
				return c.callExternal(st, key, fn, nil, x)
			}
		}
	}
	// method or field of function type
	recv := c.eval(st, f.X)
	if recv.T == nil {
		limitf("%s: method call on untyped value", c.eng.posStr(x.Pos()))
	}
	obj, path, _ := types.LookupFieldOrMethod(recv.T, true, c.eng.pkg.Types, f.Sel.Name)
	switch o := obj.(type) {
	case *types.Var:
		// field holding a func value
		fv := c.selectField(st, recv, f.Sel.Name, f.Pos())
		owner := structName(recv.T)
		if len(path) > 1 {
			// promoted through embedding: find the declaring struct
			cur := recv
			for _, idx := range path[:len(path)-1] {
				cur = c.fieldStep(st, cur, idx, f.Pos())
			}
			owner = structName(cur.T)
		}
		return c.callFuncValue(st, fv, owner+"."+f.Sel.Name, x)
	case *types.Func:
		// walk embedded path to the actual receiver
		cur := recv
		for _, idx := range path[:len(path)-1] {
			cur = c.fieldStep(st, cur, idx, f.Pos())
		}
		if key, ok := c.eng.fobjs[o]; ok {
			return c.callRepo(st, key, &recvInfo{val: cur, expr: f.X, promoted: len(path) > 1}, x)
		}
		// interface method or foreign method
		sig := o.Type().(*types.Signature)
		var key string
		if sig.Recv() != nil {
			rt := sig.Recv().Type()
			if p, ok := rt.(*types.Pointer); ok {
				rt = p.Elem()
			}
			key = types.TypeString(rt, func(p *types.Package) string {
				if p == c.eng.pkg.Types {
					return ""
				}
				return p.Name()
			}) + "." + o.Name()
		}
		if _, isIface := under(cur.T).(*types.Interface); isIface {
			if n, ok := cur.T.(*types.Named); ok {
				pk := ""
				if n.Obj().Pkg() != nil && n.Obj().Pkg() != c.eng.pkg.Types {
					pk = n.Obj().Pkg().Name() + "."
				}
				key = pk + n.Obj().Name() + "." + o.Name()
			} else if key == "" || strings.HasPrefix(key, "interface") {
				key = "interface." + o.Name()
			}
		}
		return c.callExternal(st, key, o, cur, x)
	}
	limitf("%s: cannot resolve call %s", c.eng.posStr(x.Pos()), f.Sel.Name)
	return nil
}

type recvInfo struct {
	val      *Val
	expr     ast.Expr
	promoted bool
}

// ------------------------------------------------------------ convert ---

func (c *FuncCtx) convert(st *State, v *Val, t types.Type, pos token.Pos) *Val {
	srt := c.eng.sortOf(t)
	if v.IsNil {
		return &Val{T: t, S: c.eng.zeroOfSort(srt, t), Sort: srt}
	}
	ub, _ := under(t).(*types.Basic)
	switch {
	case srt == "String" && v.Sort == "Int" && isRuneLike(v.T):
		c.eng.declareUF("runeStr", "(declare-fun runeStr (Int) String)")
		return &Val{T: t, S: app("runeStr", v.S), Sort: "String"}
	case srt == "String" && v.Sort == "String":
		return &Val{T: t, S: v.S, Sort: "String"}
	case srt == "String" && strings.HasPrefix(v.Sort, "Sl_"):
		uf := "bytesToString"
		c.eng.declareUF(uf, fmt.Sprintf("(declare-fun %s (%s) String)", uf, v.Sort))
		r := &Val{T: t, S: app(uf, v.S), Sort: "String"}
		st.assume(mkEq(app("str.len", r.S), acc("len_"+v.Sort, v.S)))
		return r
	case strings.HasPrefix(srt, "Sl_") && v.Sort == "String":
		// []rune(s) / []byte(s): the language-defined conversion, as an
		// uninterpreted function of the string
		uf := "runesOf"
		if b, ok := under(under(t).(*types.Slice).Elem()).(*types.Basic); ok && b.Kind() == types.Uint8 {
			uf = "bytesOf"
		}
		c.eng.declareUF(uf, fmt.Sprintf("(declare-fun %s (String) %s)", uf, srt))
		r := &Val{T: t, S: app(uf, v.S), Sort: srt}
		l := acc("len_"+srt, r.S)
		// (len(runes) <= len(s) also holds; it is left out because str.len terms
		// slow the solvers down badly in the presence of quantifiers)
		st.assume(mkAnd(mkEq(acc("off_"+srt, r.S), "0"), app("<=", "0", l),
			mkEq(mkEq(l, "0"), mkEq(v.S, `""`)), mkNot(acc("nil_"+srt, r.S))))
		if uf == "bytesOf" {
			st.assume(mkEq(l, app("str.len", v.S)))
		}
		return r
	case srt == "Int" && v.Sort == "Int":
		r := &Val{T: t, S: v.S, Sort: "Int"}
		if ub != nil && !v.Untyped {
			f := c.eng.typeFacts(v.S, t)
			if f != tTrue {
				c.safeKind(st, "ovf", "convert", pos, f, "conversion to "+t.String()+" keeps the value")
			}
		}
		return r
	case srt == "Real" && v.Sort == "Int":
		return &Val{T: t, S: app("to_real", v.S), Sort: "Real"}
	case srt == "Real" && v.Sort == "Real":
		return &Val{T: t, S: v.S, Sort: "Real"}
	case srt == "Iface" && v.Sort != "Iface":
		return c.box(st, v, t)
	case srt == v.Sort:
		return &Val{T: t, S: v.S, Sort: srt}
	}
	limitf("%s: unsupported conversion from %s to %s", c.eng.posStr(pos), v.Sort, t)
	return nil
}

func isRuneLike(t types.Type) bool {
	b, ok := under(t).(*types.Basic)
	return ok && b.Info()&types.IsInteger != 0
}

// ----------------------------------------------------------- builtins ---

func (c *FuncCtx) builtin(st *State, name string, x *ast.CallExpr) []*Val {
	switch name {
	case "len":
		v := c.eval(st, x.Args[0])
		return []*Val{c.lenOf(st, v)}
	case "cap":
		limitf("%s: cap() is not modelled", c.eng.posStr(x.Pos()))
	case "append":
		s := c.eval(st, x.Args[0])
		if s.IsNil {
			t := c.typeOf(x)
			s = c.coerce(st, s, t)
		}
		sl, ok := under(s.T).(*types.Slice)
		if !ok {
			limitf("%s: append to non-slice", c.eng.posStr(x.Pos()))
		}
		if x.Ellipsis.IsValid() {
			t := c.eval(st, x.Args[1])
			if t.Sort == "String" {
				limitf("%s: append(bytes, string...)", c.eng.posStr(x.Pos()))
			}
			return []*Val{c.appendSlice(st, s, t)}
		}
		cur := s
		for _, a := range x.Args[1:] {
			v := c.coerce(st, c.eval(st, a), sl.Elem())
			cur = c.append1(st, cur, v)
		}
		return []*Val{cur}
	case "make":
		t := c.typeOf(x.Args[0])
		if t == nil {
			t = c.resolveSpecType(x.Args[0])
		}
		switch u := under(t).(type) {
		case *types.Slice:
			n := c.eval(st, x.Args[1])
			c.safe(st, "makelen", x.Pos(), app("<=", "0", n.S), "make with non-negative length")
			if len(x.Args) > 2 {
				cp := c.eval(st, x.Args[2])
				c.safe(st, "makecap", x.Pos(), app("<=", n.S, cp.S), "make with len <= cap")
			}
			srt := c.eng.sortOf(t)
			es := c.eng.sortOf(u.Elem())
			arr := fmt.Sprintf("((as const (Array Int %s)) %s)", es, c.eng.zeroOfSort(es, u.Elem()))
			return []*Val{{T: t, S: app("mk_"+srt, arr, "0", n.S, tFalse), Sort: srt}}
		case *types.Map:
			srt := c.eng.sortOf(t)
			ks, vs := c.eng.sortOf(u.Key()), c.eng.sortOf(u.Elem())
			dom := fmt.Sprintf("((as const (Array %s Bool)) false)", ks)
			val := fmt.Sprintf("((as const (Array %s %s)) %s)", ks, vs, c.eng.zeroOfSort(vs, u.Elem()))
			return []*Val{{T: t, S: app("mk_"+srt, dom, val, tFalse), Sort: srt}}
		}
		limitf("%s: make of %s", c.eng.posStr(x.Pos()), t)
	case "copy":
		dst := c.eval(st, x.Args[0])
		src := c.eval(st, x.Args[1])
		if !strings.HasPrefix(dst.Sort, "Sl_") || dst.Sort != src.Sort {
			limitf("%s: copy on %s / %s", c.eng.posStr(x.Pos()), dst.Sort, src.Sort)
		}
		s := dst.Sort
		n := mkIte(app("<=", acc("len_"+s, dst.S), acc("len_"+s, src.S)), acc("len_"+s, dst.S), acc("len_"+s, src.S))
		es := c.eng.sortOf(under(dst.T).(*types.Slice).Elem())
		nb := c.fresh("copy", fmt.Sprintf("(Array Int %s)", es))
		i := c.bvar("i")
		// new contents: src on [0,n), old dst elsewhere
		st.assume(fmt.Sprintf("(forall ((%s Int)) (= (select %s %s) (ite (and (<= 0 %s) (< %s %s)) %s %s)))", i, nb, i, i, i, n,
			mkSel(acc("base_"+s, src.S), mkAdd(acc("off_"+s, src.S), i)),
			mkSel(acc("base_"+s, dst.S), mkAdd(acc("off_"+s, dst.S), i))))
		nv := &Val{T: dst.T, S: app("mk_"+s, nb, "0", acc("len_"+s, dst.S), acc("nil_"+s, dst.S)), Sort: s}
		c.assign(st, x.Args[0], nv)
		return []*Val{{T: tInt, S: n, Sort: "Int"}}
	case "panic":
		c.oblige(st, "safe", fmt.Sprintf("safe@%s.panic", c.anchor(x.Pos())), x.Pos(), tFalse, nil, "explicit panic is unreachable")
		st.dead = true
		st.assume(tFalse)
		return []*Val{}
	case "delete":
		m := c.eval(st, x.Args[0])
		mt := under(m.T).(*types.Map)
		k := c.coerce(st, c.eval(st, x.Args[1]), mt.Key())
		s := m.Sort
		nv := &Val{T: m.T, S: app("mk_"+s, mkStore(acc("dom_"+s, m.S), k.S, tFalse), acc("val_"+s, m.S), acc("nil_"+s, m.S)), Sort: s}
		c.assign(st, x.Args[0], nv)
		return []*Val{}
	case "new":
		t := c.typeOf(x.Args[0])
		if c.eng.isHeapStruct(t) {
			ref := c.alloc(st, t)
			c.storeStruct(st, ref, c.val(c.eng.zero(t), t))
			return []*Val{{T: types.NewPointer(t), S: ref, Sort: "Int"}}
		}
		os := c.eng.sorts.opt(c.eng.sortOf(t))
		return []*Val{{T: types.NewPointer(t), S: app("some_"+os, c.eng.zero(t)), Sort: os}}
	}
	limitf("%s: unsupported builtin %s", c.eng.posStr(x.Pos()), name)
	return nil
}

func (c *FuncCtx) lenOf(st *State, v *Val) *Val {
	switch {
	case v.Sort == "String":
		r := &Val{T: tInt, S: app("str.len", v.S), Sort: "Int"}
		return r
	case strings.HasPrefix(v.Sort, "Sl_"):
		r := &Val{T: tInt, S: acc("len_"+v.Sort, v.S), Sort: "Int"}
		return r
	case strings.HasPrefix(v.Sort, "Mp_"):
		uf := "maplen_" + v.Sort
		c.eng.declareUF(uf, fmt.Sprintf("(declare-fun %s (%s) Int)", uf, v.Sort))
		r := &Val{T: tInt, S: app(uf, v.S), Sort: "Int"}
		st.assume(app("<=", "0", r.S))
		return r
	}
	limitf("len of %s", v.Sort)
	return nil
}

// append1: under value semantics appending one element is a store just past
// the end of the window.
func (c *FuncCtx) append1(st *State, s, v *Val) *Val {
	srt := s.Sort
	l := acc("len_"+srt, s.S)
	nl := mkAdd(l, "1")
	return &Val{T: s.T, S: app("mk_"+srt, mkStore(acc("base_"+srt, s.S), mkAdd(acc("off_"+srt, s.S), l), v.S), acc("off_"+srt, s.S), nl, tFalse), Sort: srt}
}

// appendSlice: append(s, t...)
func (c *FuncCtx) appendSlice(st *State, s, t *Val) *Val {
	srt := s.Sort
	if t.Sort != srt {
		limitf("append of %s to %s", t.Sort, srt)
	}
	sl := under(s.T).(*types.Slice)
	es := c.eng.sortOf(sl.Elem())
	nb := c.fresh("app", fmt.Sprintf("(Array Int %s)", es))
	ls, lt := acc("len_"+srt, s.S), acc("len_"+srt, t.S)
	i := c.bvar("i")
	st.assume(fmt.Sprintf("(forall ((%s Int)) (= (select %s %s) (ite (< %s %s) %s %s)))", i, nb, i, i, ls,
		mkSel(acc("base_"+srt, s.S), mkAdd(acc("off_"+srt, s.S), i)),
		mkSel(acc("base_"+srt, t.S), mkAdd(acc("off_"+srt, t.S), mkSub(i, ls)))))
	nl := mkAdd(ls, lt)
	nilv := mkAnd(acc("nil_"+srt, s.S), mkEq(lt, "0"))
	r := &Val{T: s.T, S: app("mk_"+srt, nb, "0", nl, nilv), Sort: srt}
	if c.eng.transientSort() == srt {
		// the result shares storage with s at most
		st.assume(mkOr(c.transientTerm(s), mkNot(c.transientTerm(r))))
	}
	if b, ok := under(sl.Elem()).(*types.Basic); ok && b.Kind() == types.Uint8 {
		{
			// string(append(s, t...)) == string(s) + string(t)
			c.eng.declareUF("bytesToString", fmt.Sprintf("(declare-fun bytesToString (%s) String)", srt))
			st.assume(mkEq(app("bytesToString", r.S), app("str.++", app("bytesToString", s.S), app("bytesToString", t.S))))
		}
	}
	return r
}

// ------------------------------------------------------- spec builtins ---

func (c *FuncCtx) specBuiltin(st *State, name string, x *ast.CallExpr) ([]*Val, bool) {
	b := func(t string) []*Val { return []*Val{{T: tBool, S: t, Sort: "Bool"}} }
	switch name {
	case "old":
		return []*Val{c.evalOld(st, x.Args[0])}, true
	case "loopentry":
		// value of an expression when the loop (whose invariant this is) was entered
		if c.loopEntry == nil {
			limitf("loopentry() used outside a loop invariant")
		}
		tmp := c.loopEntry.clone()
		tmp.bound = st.bound
		tmp.pc = st.pc
		tmp.facts = st.facts
		tmp.guard = st.guard
		tmp.old = st.old
		v := c.eval(tmp, x.Args[0])
		st.pc = tmp.pc
		return []*Val{v}, true
	case "implies":
		l := c.eval(st, x.Args[0])
		st.guard = append(st.guard, l.S)
		r := c.eval(st, x.Args[1])
		st.guard = st.guard[:len(st.guard)-1]
		if r.SA != "" || l.SA != "" {
			// polarity: as a goal the hypothesis is assumed (its assumption
			// form), as an assumption the hypothesis has to be established
			return []*Val{{T: tBool, S: mkImplies(l.forAssume(), r.S), SA: mkImplies(l.S, r.forAssume()), Sort: "Bool"}}, true
		}
		return b(mkImplies(l.S, r.S)), true
	case "iff":
		l := c.eval(st, x.Args[0])
		r := c.eval(st, x.Args[1])
		return b(mkEq(l.S, r.S)), true
	case "ite":
		cnd := c.eval(st, x.Args[0])
		l := c.eval(st, x.Args[1])
		r := c.eval(st, x.Args[2])
		if l.IsNil && !r.IsNil {
			l = c.coerce(st, l, r.T)
		} else if r.IsNil && !l.IsNil {
			r = c.coerce(st, r, l.T)
		}
		t := l.T
		if l.Untyped && !r.Untyped {
			t = r.T
		}
		return []*Val{{T: t, S: mkIte(cnd.S, l.S, r.S), Sort: l.Sort, Untyped: l.Untyped && r.Untyped}}, true
	case "forall", "exists":
		return []*Val{c.quant(st, name, x)}, true
	case "unfold":
		call, ok := x.Args[0].(*ast.CallExpr)
		if !ok {
			limitf("unfold needs a call of a recursive spec function")
		}
		id, _ := call.Fun.(*ast.Ident)
		var sf *SpecFunc
		if id != nil {
			sf = c.eng.spec.Funcs[id.Name]
		}
		if sf == nil || !sf.Rec {
			limitf("unfold needs a call of a recursive spec function")
		}
		lhs := c.callSpecFunc(st, sf, call)
		rhs := c.expandSpecFunc(st, sf, call)
		f := mkEq(lhs.S, rhs.S)
		st.assume(f)
		c.unfoldFacts = append(c.unfoldFacts, f)
		return b(tTrue), true
	case "hasPrefix":
		s, p := c.eval(st, x.Args[0]), c.eval(st, x.Args[1])
		return b(app("str.prefixof", p.S, s.S)), true
	case "hasSuffix":
		s, p := c.eval(st, x.Args[0]), c.eval(st, x.Args[1])
		return b(app("str.suffixof", p.S, s.S)), true
	case "contains":
		s, p := c.eval(st, x.Args[0]), c.eval(st, x.Args[1])
		return b(app("str.contains", s.S, p.S)), true
	case "indexOf":
		s, p := c.eval(st, x.Args[0]), c.eval(st, x.Args[1])
		from := "0"
		if len(x.Args) > 2 {
			from = c.eval(st, x.Args[2]).S
		}
		return []*Val{{T: tInt, S: app("str.indexof", s.S, p.S, from), Sort: "Int"}}, true
	case "byteStr":
		v := c.eval(st, x.Args[0])
		return []*Val{{T: tString, S: app("str.from_code", v.S), Sort: "String"}}, true
	case "same":
		l, r := c.eval(st, x.Args[0]), c.eval(st, x.Args[1])
		if l.IsNil {
			l = c.coerce(st, l, r.T)
		}
		if r.IsNil {
			r = c.coerce(st, r, l.T)
		}
		return b(mkEq(l.S, r.S)), true
	case "is":
		v := c.eval(st, x.Args[0])
		t := c.resolveSpecType(x.Args[1])
		_, ok := c.assertTo(st, v, t)
		return b(ok), true
	case "as":
		v := c.eval(st, x.Args[0])
		t := c.resolveSpecType(x.Args[1])
		r, _ := c.assertTo(st, v, t)
		return []*Val{r}, true
	case "mapset":
		// mapset(m, k, v): the map m with m[k] = v
		m := c.eval(st, x.Args[0])
		mt, ok := under(m.T).(*types.Map)
		if !ok {
			limitf("mapset: not a map")
		}
		k := c.coerce(st, c.eval(st, x.Args[1]), mt.Key())
		v := c.coerce(st, c.eval(st, x.Args[2]), mt.Elem())
		sm := m.Sort
		return []*Val{{T: m.T, S: app("mk_"+sm, mkStore(acc("dom_"+sm, m.S), k.S, tTrue), mkStore(acc("val_"+sm, m.S), k.S, v.S), tFalse), Sort: sm}}, true
	case "isnil":
		v := c.eval(st, x.Args[0])
		return b(c.isNilTerm(v)), true
	case "arg":
		// arg(k): the k-th argument of the call an "at call" clause is attached
		// to - independent of how the code names its temporaries
		lit, ok := x.Args[0].(*ast.BasicLit)
		if c.atCallExpr == nil || !ok || len(x.Args) != 1 {
			limitf("arg(k) is only meaningful in an \"at call\" clause, with a literal k")
		}
		k, err := strconv.Atoi(lit.Value)
		if err != nil || k < 0 || k >= len(c.atCallExpr.Args) {
			limitf("arg(%s): the call has %d arguments", lit.Value, len(c.atCallExpr.Args))
		}
		saved := st.bound
		nb := map[string]*Val{}
		for n, v := range saved {
			if strings.HasPrefix(n, "$") {
				nb[n] = v
			}
		}
		st.bound = nb
		v := c.eval(st, c.atCallExpr.Args[k])
		st.bound = saved
		return []*Val{v}, true
	case "recv":
		// recv(): the receiver of the method call an "at call" clause is attached to
		if c.atCallExpr == nil {
			limitf("recv() is only meaningful in an \"at call\" clause")
		}
		sel, ok := ast.Unparen(c.atCallExpr.Fun).(*ast.SelectorExpr)
		if !ok {
			limitf("recv(): the call has no receiver")
		}
		saved := st.bound
		nb := map[string]*Val{}
		for n, v := range saved {
			if strings.HasPrefix(n, "$") {
				nb[n] = v
			}
		}
		st.bound = nb
		v := c.eval(st, sel.X)
		st.bound = saved
		return []*Val{v}, true
	case "transient":
		return b(c.transientTerm(c.eval(st, x.Args[0]))), true
	case "allocated":
		// allocated(p): the object p refers to was allocated before this point
		// (p lies at or below the allocation frontier of its type)
		v := c.eval(st, x.Args[0])
		pt, ok := under(v.T).(*types.Pointer)
		if !ok || !c.eng.isHeapStruct(pt.Elem()) {
			limitf("allocated: not a reference to a struct of the package")
		}
		if c.inCallPre {
			// every reference a caller can pass exists already: a truth of the
			// language, not something the caller has to establish
			return b(tTrue), true
		}
		return b(app("<=", v.S, c.frontier(st, structName(pt.Elem())))), true
	case "indom":
		m := c.eval(st, x.Args[0])
		mt := under(m.T).(*types.Map)
		k := c.coerce(st, c.eval(st, x.Args[1]), mt.Key())
		return b(mkSel(acc("dom_"+m.Sort, m.S), k.S)), true
	case "result":
		if v, ok := st.bound["$result"]; ok {
			return []*Val{v}, true
		}
	case "use":
		// use(factName, t1, t2, ...): one instance of a named axiom or lemma
		id, ok := x.Args[0].(*ast.Ident)
		if !ok {
			limitf("use: first argument must be the name of an axiom or lemma")
		}
		var fa *Fact
		for _, f := range c.eng.spec.Facts {
			if f.Name == id.Name {
				fa = f
			}
		}
		if fa == nil {
			limitf("use: no axiom or lemma named %s", id.Name)
		}
		var names []string
		var ptypes []types.Type
		for _, f := range fa.Vars {
			t := c.resolveSpecType(f.Type)
			for _, n := range f.Names {
				names = append(names, n.Name)
				ptypes = append(ptypes, t)
			}
		}
		if len(names) != len(x.Args)-1 {
			limitf("use(%s): %d terms for %d variables", id.Name, len(x.Args)-1, len(names))
		}
		vals := make([]*Val, len(names))
		for i := range names {
			vals[i] = c.coerce(st, c.eval(st, x.Args[i+1]), ptypes[i])
		}
		saved := st.bound
		nb := map[string]*Val{}
		for k, v := range saved {
			if strings.HasPrefix(k, "$") {
				nb[k] = v
			}
		}
		for i, n := range names {
			nb[n] = vals[i]
		}
		nb["$spec"] = &Val{S: "1"}
		st.bound = nb
		g0 := st.guard
		st.guard = nil
		v := c.eval(st, fa.Expr)
		st.assume(v.forAssume())
		st.guard = g0
		st.bound = saved
		return b(tTrue), true
	case "iterlen", "iterelem":
		// the ghost sequence an iterator method walks: iterlen(Group.eachGroup, g),
		// iterelem(Group.eachGroup, g, k, j) = j-th closure parameter of step k
		key := traceNameOf(x.Args[0])
		recv := c.eval(st, x.Args[1])
		fd, ok := c.eng.funcs[key]
		if !ok {
			limitf("%s: no iterator method %s", name, key)
		}
		sig := c.eng.info.Defs[fd.Name].(*types.Func).Type().(*types.Signature)
		cb, ok := under(sig.Params().At(0).Type()).(*types.Signature)
		if !ok {
			limitf("%s: %s does not take a callback", name, key)
		}
		id := strings.ReplaceAll(key, ".", "_")
		lenUF := "seqLen_" + id
		c.eng.declareUF(lenUF, fmt.Sprintf("(declare-fun %s (Int) Int)", lenUF))
		if name == "iterlen" {
			r := &Val{T: tInt, S: app(lenUF, recv.S), Sort: "Int"}
			st.assume(app("<=", "0", r.S))
			return []*Val{r}, true
		}
		k := c.eval(st, x.Args[2])
		jv := c.eval(st, x.Args[3])
		j, okj := isIntLit(jv.S)
		if !okj || int(j) >= cb.Params().Len() {
			limitf("iterelem: bad parameter position")
		}
		pt := cb.Params().At(int(j)).Type()
		uf := fmt.Sprintf("seqOf_%s_%d", id, j)
		c.eng.declareUF(uf, fmt.Sprintf("(declare-fun %s (Int) (Array Int %s))", uf, c.eng.sortOf(pt)))
		return []*Val{c.val(mkSel(app(uf, recv.S), k.S), pt)}, true
	case "nrunes":
		v := c.eval(st, x.Args[0])
		c.eng.declareUF("nrunes", "(declare-fun nrunes (String) Int)")
		return []*Val{{T: tInt, S: app("nrunes", v.S), Sort: "Int"}}, true
	case "runeAt", "runeOffset":
		v := c.eval(st, x.Args[0])
		k := c.eval(st, x.Args[1])
		uf := map[string]string{"runeAt": "runeSeq", "runeOffset": "runeOff"}[name]
		c.eng.declareUF(uf, fmt.Sprintf("(declare-fun %s (String) (Array Int Int))", uf))
		t := types.Type(tRune)
		if name == "runeOffset" {
			t = tInt
		}
		return []*Val{{T: t, S: mkSel(app(uf, v.S), k.S), Sort: "Int"}}, true
	case "ncalls", "callarg", "callres", "calltime", "nfails":
		return c.traceBuiltin(st, name, x)
	case "clock":
		// the ghost clock: it ticks at every traced call, so
		// calltime(f, k) == clock() - 1 says "call k of f is the most recent traced call"
		return []*Val{{T: tInt, S: c.traceClock(st), Sort: "Int"}}, true
	case "tick", "ticks":
		// ghost counters local to the function under verification: tick(c)
		// (only in an "at call" clause) increments, ticks(c) reads
		id, ok := x.Args[0].(*ast.Ident)
		if !ok || len(x.Args) != 1 {
			limitf("%s(name) expects a counter name", name)
		}
		f := "tick$" + id.Name
		if c.contract == nil || !c.contract.ticks(id.Name) {
			// a counter of some other function: unknown here
			return []*Val{{T: tInt, S: c.fresh("ticks_"+id.Name, "Int"), Sort: "Int"}}, true
		}
		n := c.traceN(st, f)
		if name == "ticks" {
			return []*Val{{T: tInt, S: mkSub(n, c.tickBase(f)), Sort: "Int"}}, true
		}
		if !c.inAtCall {
			limitf("tick(%s) outside an 'at call' clause", id.Name)
		}
		st.heap[traceKey(f)+"|n"] = mkAdd(n, "1")
		return []*Val{{T: tBool, S: tTrue, Sort: "Bool"}}, true
	case "fst", "snd":
		vs := c.evalMulti(st, x.Args[0])
		i := 0
		if name == "snd" {
			i = 1
		}
		if i >= len(vs) {
			limitf("%s: not a tuple", name)
		}
		return []*Val{vs[i]}, true
	}
	// uninterpreted / assumed-pure library function referenced from a spec
	return nil, false
}

func (c *FuncCtx) evalOld(st *State, e ast.Expr) *Val {
	if st.old == nil {
		limitf("old() used where no pre-state exists")
	}
	tmp := st.old.clone()
	tmp.bound = st.bound
	for k := range st.bound {
		if strings.HasPrefix(k, "$oldparam:") {
			nb := map[string]*Val{}
			for kk, vv := range st.bound {
				nb[kk] = vv
			}
			for kk, vv := range st.bound {
				if strings.HasPrefix(kk, "$oldparam:") {
					nb[strings.TrimPrefix(kk, "$oldparam:")] = vv
				}
			}
			tmp.bound = nb
			break
		}
	}
	tmp.pc = st.pc
	tmp.facts = st.facts
	tmp.guard = st.guard
	tmp.old = st.old
	v := c.eval(tmp, e)
	st.pc = tmp.pc
	// heap arrays first touched inside old() are entry arrays; remember them
	for k, a := range tmp.heap {
		if _, ok := st.old.heap[k]; !ok {
			st.old.heap[k] = a
		}
	}
	return v
}

// quant: forall(i, lo, hi, P) / exists(i, lo, hi, P) over integers, or
// forall(x, P) over all integers (references).
func (c *FuncCtx) quant(st *State, kind string, x *ast.CallExpr) *Val {
	id, ok := x.Args[0].(*ast.Ident)
	if !ok {
		limitf("quantifier variable must be an identifier")
	}
	bv := c.bvar(id.Name)
	saved, had := st.bound[id.Name]
	var vt types.Type = tInt
	var lo, hi *Val
	var body ast.Expr
	switch len(x.Args) {
	case 4:
		lo, hi = c.eval(st, x.Args[1]), c.eval(st, x.Args[2])
		body = x.Args[3]
	case 3:
		// forall(x, *Option, P): typed reference variable
		vt = c.resolveSpecType(x.Args[1])
		body = x.Args[2]
	case 2:
		body = x.Args[1]
	default:
		limitf("bad quantifier arity")
	}
	st.bound[id.Name] = &Val{T: vt, S: bv, Sort: c.eng.sortOf(vt)}
	// facts assumed while evaluating the body may mention the bound variable:
	// they become hypotheses inside the quantifier.
	pcBefore := st.pc
	g0 := len(st.guard)
	p := c.eval(st, body)
	var inner []string
	for q := st.pc; q != pcBefore && q != nil; q = q.parent {
		if strings.Contains(q.fact, bv) {
			inner = append(inner, q.fact)
			delete(st.facts, q.fact)
		}
	}
	// rebuild pc without the facts that mention the bound variable
	if len(inner) > 0 {
		var keep []string
		for q := st.pc; q != pcBefore && q != nil; q = q.parent {
			if !strings.Contains(q.fact, bv) {
				keep = append(keep, q.fact)
			}
		}
		st.pc = pcBefore
		for i := len(keep) - 1; i >= 0; i-- {
			st.pc = st.pc.push(keep[i])
		}
	}
	st.guard = st.guard[:g0]
	if had {
		st.bound[id.Name] = saved
	} else {
		delete(st.bound, id.Name)
	}
	rng := tTrue
	if lo != nil {
		rng = mkAnd(app("<=", lo.S, bv), app("<", bv, hi.S))
	} else if _, isPtr := under(vt).(*types.Pointer); isPtr {
		rng = app("<", "0", bv)
	}
	// a range with literal bounds and at most 4 elements is expanded: solvers
	// are bad at instantiating "0 <= p < 1"
	if lo != nil {
		if l, ok1 := isIntLit(lo.S); ok1 {
			if h, ok2 := isIntLit(hi.S); ok2 && h-l <= 4 {
				var parts []string
				for k := l; k < h; k++ {
					inst := strings.ReplaceAll(mkImplies(mkAnd(inner...), p.S), bv, mkInt(k))
					if kind == "exists" {
						inst = strings.ReplaceAll(mkAnd(append(append([]string{}, inner...), p.S)...), bv, mkInt(k))
					}
					parts = append(parts, inst)
				}
				if kind == "forall" {
					return &Val{T: tBool, S: mkAnd(parts...), Sort: "Bool"}
				}
				return &Val{T: tBool, S: mkOr(parts...), Sort: "Bool"}
			}
		}
	}
	// tail split: a range [lo, X+k) (k <= 3) is written as [lo, X) plus the
	// ground instances at X .. X+k-1 (equivalent; it lines the quantified part
	// up with the same invariant one iteration earlier and saves the solver
	// instantiations that need arithmetic reasoning)
	if lo != nil {
		if x0, k, ok := splitPlusConst(hi.S); ok && k >= 1 && k <= 3 && !strings.Contains(x0, "?") {
			body := mkImplies(mkAnd(inner...), p.S)
			if kind == "exists" {
				body = mkAnd(append(append([]string{}, inner...), p.S)...)
			}
			srt := c.eng.sortOf(vt)
			rng2 := mkAnd(app("<=", lo.S, bv), app("<", bv, x0))
			var parts []string
			if kind == "forall" {
				parts = append(parts, fmt.Sprintf("(forall ((%s %s)) %s)", bv, srt, mkImplies(rng2, body)))
			} else {
				parts = append(parts, fmt.Sprintf("(exists ((%s %s)) %s)", bv, srt, mkAnd(rng2, body)))
			}
			for d := int64(0); d < k; d++ {
				at := mkAdd(x0, mkInt(d))
				inst := strings.ReplaceAll(body, bv, at)
				if kind == "forall" {
					parts = append(parts, mkImplies(app("<=", lo.S, at), inst))
				} else {
					parts = append(parts, mkAnd(app("<=", lo.S, at), inst))
				}
			}
			if kind == "forall" {
				return &Val{T: tBool, S: mkAnd(parts...), Sort: "Bool"}
			}
			return &Val{T: tBool, S: mkOr(parts...), Sort: "Bool"}
		}
	}
	var t string
	srt := c.eng.sortOf(vt)
	if kind == "forall" {
		t = fmt.Sprintf("(forall ((%s %s)) %s)", bv, srt, mkImplies(mkAnd(append([]string{rng}, inner...)...), p.S))
		if len(inner) > 0 || p.SA != "" {
			// assumed form: the side facts are true of every value, so they are
			// conjuncts, not hypotheses a solver could falsify to make an
			// instance vacuous
			sa := fmt.Sprintf("(forall ((%s %s)) %s)", bv, srt, mkImplies(rng, mkAnd(append(append([]string{}, inner...), p.forAssume())...)))
			return &Val{T: tBool, S: t, SA: sa, Sort: "Bool"}
		}
	} else {
		t = fmt.Sprintf("(exists ((%s %s)) %s)", bv, srt, mkAnd(append(append([]string{rng}, inner...), p.S)...))
	}
	return &Val{T: tBool, S: t, Sort: "Bool"}
}

// callSpecFunc: non-recursive spec functions are macros (expanded in the
// current state, so they may read the heap); recursive ones are define-fun-rec
// over heap-free sorts.
func (c *FuncCtx) callSpecFunc(st *State, sf *SpecFunc, x *ast.CallExpr) *Val {
	var names []string
	var ptypes []types.Type
	for _, f := range sf.Decl.Type.Params.List {
		t := c.resolveSpecType(f.Type)
		for _, n := range f.Names {
			names = append(names, n.Name)
			ptypes = append(ptypes, t)
		}
	}
	if len(names) != len(x.Args) {
		limitf("spec function %s: arity mismatch", sf.Name)
	}
	var rt types.Type = tBool
	if sf.Decl.Type.Results != nil && len(sf.Decl.Type.Results.List) > 0 {
		rt = c.resolveSpecType(sf.Decl.Type.Results.List[0].Type)
	}
	args := make([]*Val, len(x.Args))
	for i, a := range x.Args {
		args[i] = c.coerce(st, c.eval(st, a), ptypes[i])
	}
	if c.eng.defineSpec(c, sf, names, ptypes, rt) {
		var as []string
		for _, a := range args {
			as = append(as, a.S)
		}
		return c.val(app("sf_"+sf.Name, as...), rt)
	}
	saved := st.bound
	nb := map[string]*Val{}
	for k, v := range saved {
		if strings.HasPrefix(k, "$") {
			nb[k] = v
		}
	}
	for i, n := range names {
		nb[n] = args[i]
	}
	nb["$spec"] = &Val{S: "1"}
	st.bound = nb
	v := c.eval(st, sf.Body)
	st.bound = saved
	return c.coerce(st, v, rt)
}

// expandSpecFunc evaluates the body of a spec function with the parameters
// bound to the call's arguments (one unfolding).
func (c *FuncCtx) expandSpecFunc(st *State, sf *SpecFunc, x *ast.CallExpr) *Val {
	var names []string
	var ptypes []types.Type
	for _, f := range sf.Decl.Type.Params.List {
		t := c.resolveSpecType(f.Type)
		for _, n := range f.Names {
			names = append(names, n.Name)
			ptypes = append(ptypes, t)
		}
	}
	var rt types.Type = tBool
	if sf.Decl.Type.Results != nil && len(sf.Decl.Type.Results.List) > 0 {
		rt = c.resolveSpecType(sf.Decl.Type.Results.List[0].Type)
	}
	args := make([]*Val, len(x.Args))
	for i, a := range x.Args {
		args[i] = c.coerce(st, c.eval(st, a), ptypes[i])
	}
	saved := st.bound
	nb := map[string]*Val{}
	for k, v := range saved {
		if strings.HasPrefix(k, "$") {
			nb[k] = v
		}
	}
	for i, n := range names {
		nb[n] = args[i]
	}
	nb["$spec"] = &Val{S: "1"}
	st.bound = nb
	v := c.eval(st, sf.Body)
	st.bound = saved
	return c.coerce(st, v, rt)
}

// defineSpec emits (define-fun[-rec] sf_name ...) once for a spec function
// whose body does not read the heap; other (non-recursive) spec functions are
// expanded as macros at each use.
func (e *Engine) defineSpec(c *FuncCtx, sf *SpecFunc, names []string, ptypes []types.Type, rt types.Type) (ok bool) {
	if d, seen := e.specDefs[sf.Name]; seen {
		return d != "macro"
	}
	e.specDefs[sf.Name] = "" // reserve (recursion)
	tmp := &State{vars: map[*types.Var]*Val{}, heap: map[string]string{}, bound: map[string]*Val{}, facts: map[string]bool{}}
	var ps []string
	for i, n := range names {
		tmp.bound[n] = &Val{T: ptypes[i], S: n, Sort: e.sortOf(ptypes[i])}
		ps = append(ps, fmt.Sprintf("(%s %s)", n, e.sortOf(ptypes[i])))
	}
	tmp.bound["$spec"] = &Val{S: "1"}
	scratch := &FuncCtx{eng: e, key: "$spec." + sf.Name, heapLocals: map[*types.Var]bool{}, mapOwned: map[*types.Var]bool{}, params: map[*types.Var]bool{}}
	var body *Val
	func() {
		defer func() {
			if r := recover(); r != nil {
				if _, isLimit := r.(engineLimit); isLimit {
					body = nil
					return
				}
				panic(r)
			}
		}()
		body = scratch.coerce(tmp, scratch.eval(tmp, sf.Body), rt)
	}()
	if sf.Rec {
		// may read the heap: its unfold() instances are taken in the heap of
		// the moment, which is only meaningful for fields the code never
		// changes after construction (stated in the trusted base)
		body = &Val{}
	}
	if body == nil || (!sf.Rec && (len(tmp.heap) > 0 || len(scratch.decls) > 0)) {
		e.specDefs[sf.Name] = "macro"
		return false
	}
	if sf.Rec {
		// a recursive spec function is an uninterpreted symbol; its definition
		// is supplied one instance at a time by unfold(f(args)) hints (solvers
		// unfold define-fun-rec eagerly and drown in it)
		var psorts []string
		for i := range names {
			psorts = append(psorts, e.sortOf(ptypes[i]))
		}
		e.specDefs[sf.Name] = fmt.Sprintf("(declare-fun sf_%s (%s) %s)", sf.Name, strings.Join(psorts, " "), e.sortOf(rt))
		e.specOrder = append(e.specOrder, sf.Name)
		return true
	}
	e.specDefs[sf.Name] = fmt.Sprintf("(define-fun sf_%s (%s) %s %s)", sf.Name, strings.Join(ps, " "), e.sortOf(rt), body.S)
	e.specOrder = append(e.specOrder, sf.Name)
	return true
}

// ------------------------------------------------------ contract calls ---

func (c *FuncCtx) callRepo(st *State, key string, recv *recvInfo, x *ast.CallExpr) []*Val {
	fd := c.eng.funcs[key]
	con := c.eng.spec.Contracts[key]
	sig := c.eng.info.Defs[fd.Name].(*types.Func).Type().(*types.Signature)
	c.lastVariadic = nil
	args := c.evalArgs(st, sig, x)
	variadic := c.lastVariadic
	var rv *Val
	if recv != nil {
		rv = c.adaptRecv(st, recv, sig, con != nil && con.Pure)
	}
	wb := c.pendingWB
	c.pendingWB = nil
	if con != nil {
		savedArgs := c.curCallArgs
		c.curCallArgs = x.Args
		r := c.applyContract(st, con, sig, rv, args, x.Pos(), key)
		c.curCallArgs = savedArgs
		for _, w := range wb {
			c.assign(st, w.target, c.loadStruct(st, w.ref, w.t))
		}
		c.formatFacts(st, key, sig, args, variadic, x)
		return r
	}
	if len(wb) > 0 {
		limitf("%s: &field argument to a function without contract", c.eng.posStr(x.Pos()))
	}
	if r, ok := c.inlinePure(st, key, fd, sig, rv, args, x.Pos()); ok {
		return r
	}
	if r, ok := c.inlineBody(st, key, fd, sig, rv, args, x.Pos()); ok {
		return r
	}
	limitf("%s: call of %s needs a contract (not a side-effect-free if/return chain)", c.eng.posStr(x.Pos()), key)
	return nil
}

// adaptRecv: value receivers get a copy of the value, pointer receivers the
// reference. A pointer-receiver method on an addressable struct *value* (a
// field such as option.tag) is passed the value; write-back is not modelled
// and such methods must be observationally pure.
func (c *FuncCtx) adaptRecv(st *State, recv *recvInfo, sig *types.Signature, pure bool) *Val {
	rt := sig.Recv().Type()
	v := recv.val
	if _, wantPtr := rt.(*types.Pointer); wantPtr {
		if _, isPtr := under(v.T).(*types.Pointer); isPtr {
			return v
		}
		// an address-taken struct local lives in the heap: pass its reference
		if id, ok := ast.Unparen(recv.expr).(*ast.Ident); ok && !recv.promoted && !pure {
			if o, ok := c.eng.info.Uses[id].(*types.Var); ok && c.heapLocals[o] {
				if cell, ok := st.vars[o]; ok && cell.Sort == "Int" {
					return &Val{T: types.NewPointer(o.Type()), S: cell.S, Sort: "Int"}
				}
			}
		}
		// method with pointer receiver called on a value: pass value (see above)
		return v
	}
	if _, isPtr := under(v.T).(*types.Pointer); isPtr {
		return c.deref(st, v, recv.expr.Pos())
	}
	return v
}

func (c *FuncCtx) evalArgs(st *State, sig *types.Signature, x *ast.CallExpr) []*Val {
	params := sig.Params()
	var args []*Val
	n := params.Len()
	if sig.Variadic() {
		for i := 0; i < n-1; i++ {
			args = append(args, c.coerce(st, c.eval(st, x.Args[i]), params.At(i).Type()))
		}
		vt := params.At(n - 1).Type().(*types.Slice)
		if x.Ellipsis.IsValid() {
			args = append(args, c.coerce(st, c.eval(st, x.Args[n-1]), vt))
		} else {
			srt := c.eng.sortOf(vt)
			es := c.eng.sortOf(vt.Elem())
			arr := fmt.Sprintf("((as const (Array Int %s)) %s)", es, c.eng.zeroOfSort(es, vt.Elem()))
			k := 0
			var vraw []*Val
			for _, a := range x.Args[n-1:] {
				raw := c.eval(st, a)
				vraw = append(vraw, raw)
				v := c.coerce(st, raw, vt.Elem())
				arr = mkStore(arr, mkInt(int64(k)), v.S)
				k++
			}
			nilv := tFalse
			if k == 0 {
				nilv = tTrue
			}
			args = append(args, &Val{T: vt, S: app("mk_"+srt, arr, "0", mkInt(int64(k)), nilv), Sort: srt})
			c.lastVariadic = vraw
		}
		return args
	}
	if len(x.Args) == 1 && n > 1 {
		// f(g()) with multi-value g
		vs := c.evalMulti(st, x.Args[0])
		for i, v := range vs {
			args = append(args, c.coerce(st, v, params.At(i).Type()))
		}
		return args
	}
	for i, a := range x.Args {
		var v *Val
		if u, ok := ast.Unparen(a).(*ast.UnaryExpr); ok && u.Op == token.AND && !c.inSpec(st) {
			// &x.f with f a struct-valued field: the callee gets a temporary
			// object holding the field's value; it is copied back after the call
			// (sound as long as the callee does not keep the pointer)
			if sel, ok := ast.Unparen(u.X).(*ast.SelectorExpr); ok {
				if ft := c.typeOf(sel); ft != nil && c.eng.isHeapStruct(ft) {
					if _, isPkg := c.eng.info.Uses[selRootIdent(sel)].(*types.PkgName); !isPkg {
						cur := c.eval(st, sel)
						ref := c.alloc(st, ft)
						c.storeStruct(st, ref, cur)
						c.pendingWB = append(c.pendingWB, writeBack{target: sel, ref: ref, t: ft})
						args = append(args, &Val{T: params.At(i).Type(), S: ref, Sort: "Int"})
						continue
					}
				}
			}
		}
		if fl, ok := ast.Unparen(a).(*ast.FuncLit); ok {
			cl := c.fresh("closure", "Int")
			st.assume(app("<", "0", cl))
			v = &Val{T: params.At(i).Type(), S: cl, Sort: "Int", Closure: fl}
		} else {
			v = c.coerce(st, c.eval(st, a), params.At(i).Type())
		}
		args = append(args, v)
	}
	return args
}

// bindHeader binds the contract header's receiver/parameter names.
func bindHeader(con *Contract, recv *Val, args []*Val) map[string]*Val {
	b := map[string]*Val{}
	fd := con.Decl
	if fd.Recv != nil && len(fd.Recv.List) == 1 && len(fd.Recv.List[0].Names) == 1 && recv != nil {
		b[fd.Recv.List[0].Names[0].Name] = recv
	} else if fd.Recv == nil && recv != nil {
		// external method written as "func pkg.Type.Method(recv T, ...)"
		args = append([]*Val{recv}, args...)
	}
	i := 0
	if fd.Type.Params != nil {
		for _, f := range fd.Type.Params.List {
			for _, n := range f.Names {
				if i < len(args) {
					b[n.Name] = args[i]
				}
				i++
			}
		}
	}
	return b
}

func headerResults(con *Contract) []string {
	var out []string
	if con.Decl.Type.Results != nil {
		for _, f := range con.Decl.Type.Results.List {
			if len(f.Names) == 0 {
				out = append(out, "")
			}
			for _, n := range f.Names {
				out = append(out, n.Name)
			}
		}
	}
	return out
}

// applyContract: assert requires, havoc assigns, assume ensures.
func (c *FuncCtx) applyContract(st *State, con *Contract, sig *types.Signature, recv *Val, args []*Val, pos token.Pos, key string) []*Val {
	saved := st.bound
	savedOld := st.old
	specCall := c.inSpec(st) // a call written inside a specification
	nb := bindHeader(con, recv, args)
	for k, v := range saved {
		if strings.HasPrefix(k, "$") && k != "$spec" && k != "$pos" {
			nb[k] = v
		}
	}
	nb["$spec"] = &Val{S: "1"}
	st.bound = nb
	pre := st.clone()
	pre.old = nil
	st.old = pre
	// lets and preconditions, in file order (pre-state)
	nreq := 0
	var specPre []string
	for _, cl := range con.Clauses {
		switch cl.Kind {
		case "let":
			c.bindLet(st, cl, st.bound)
		case "requires":
			nreq++
			c.inCallPre = true
			v := c.eval(st, cl.Expr)
			c.inCallPre = false
			if specCall {
				// specifications are total: no obligation; the postconditions
				// are only known to hold where the precondition does
				specPre = append(specPre, v.S)
				continue
			}
			delete(st.bound, "$spec")
			c.oblige(st, "pre", fmt.Sprintf("call@%s.%s.pre%d", c.anchor(pos), key, nreq), pos, v.S, nil, "requires "+cl.Text)
			st.bound["$spec"] = &Val{S: "1"}
			st.assume(v.forAssume())
		}
	}
	// ghost trace of this call (a function's calls of itself are not recorded:
	// the trace lists the calls made from outside)
	if con.Traced && key != c.key {
		var vals []*Val
		if recv != nil {
			vals = append(vals, recv)
		}
		vals = append(vals, args...)
		c.traceAppend(st, key, vals)
	}
	// havoc
	c.havocForCall(st, con, key)
	// results
	var results []*Val
	names := headerResults(con)
	var argTerms []string
	if recv != nil {
		argTerms = append(argTerms, recv.S)
	}
	for _, a := range args {
		argTerms = append(argTerms, a.S)
	}
	for i := 0; i < sig.Results().Len(); i++ {
		rt := sig.Results().At(i).Type()
		srt := c.eng.sortOf(rt)
		var term string
		if con.Pure {
			uf := "uf_" + sortIdent(strings.ReplaceAll(key, ".", "_"))
			if sig.Results().Len() > 1 {
				uf = fmt.Sprintf("%s_%d", uf, i)
			}
			var asorts []string
			if recv != nil {
				asorts = append(asorts, recv.Sort)
			}
			for _, a := range args {
				asorts = append(asorts, a.Sort)
			}
			if len(asorts) == 0 {
				c.eng.declareUF(uf, fmt.Sprintf("(declare-const %s %s)", uf, srt))
				term = uf
			} else {
				c.eng.declareUF(uf, fmt.Sprintf("(declare-fun %s (%s) %s)", uf, strings.Join(asorts, " "), srt))
				term = app(uf, argTerms...)
			}
		} else if sl, ok := under(rt).(*types.Slice); ok {
			// a returned slice: where its window starts is unobservable, take 0
			rb := c.fresh("r_"+key+"_base", fmt.Sprintf("(Array Int %s)", c.eng.sortOf(sl.Elem())))
			rl := c.fresh("r_"+key+"_len", "Int")
			rn := c.fresh("r_"+key+"_nil", "Bool")
			term = app("mk_"+srt, rb, "0", rl, rn)
		} else {
			term = c.fresh("r_"+key, srt)
		}
		v := &Val{T: rt, S: term, Sort: srt}
		st.assume(c.eng.typeFacts(term, rt))
		results = append(results, v)
		if i < len(names) && names[i] != "" {
			st.bound[names[i]] = v
		}
	}
	if len(results) == 1 {
		st.bound["$result"] = results[0]
	}
	// ghost results: names the header declares beyond the real signature are
	// witnesses (fresh values constrained by the ensures clauses only)
	if con.Decl.Type.Results != nil {
		gi := 0
		for _, f := range con.Decl.Type.Results.List {
			for _, n := range f.Names {
				if gi >= sig.Results().Len() {
					gt := c.resolveSpecType(f.Type)
					gs := c.eng.sortOf(gt)
					var term string
					if sl, ok := under(gt).(*types.Slice); ok {
						term = app("mk_"+gs, c.fresh("w_"+n.Name, fmt.Sprintf("(Array Int %s)", c.eng.sortOf(sl.Elem()))), "0", c.fresh("w_"+n.Name+"_len", "Int"), tFalse)
					} else {
						term = c.fresh("w_"+n.Name, gs)
					}
					st.bound[n.Name] = &Val{T: gt, S: term, Sort: gs}
				}
				gi++
			}
		}
	}
	if con.Traced && key != c.key {
		c.traceResults(st, key, results)
	}
	for _, cl := range con.clauses("updates") {
		for _, pname := range splitTop(cl.Name, ',') {
			pre, ok := st.bound[pname]
			if !ok {
				limitf("updates %s: no such parameter in contract %s", pname, key)
			}
			// position of the parameter in the header
			pos := -1
			i := 0
			for _, f := range con.Decl.Type.Params.List {
				for _, n := range f.Names {
					if n.Name == pname {
						pos = i
					}
					i++
				}
			}
			if con.Decl.Recv == nil && recv != nil {
				pos-- // header lists the receiver as first parameter
			}
			if pos < 0 || pos >= len(c.curCallArgs) {
				limitf("updates %s: cannot find the argument expression at this call of %s", pname, key)
			}
			nv := &Val{T: pre.T, S: c.fresh("upd_"+pname, pre.Sort), Sort: pre.Sort}
			st.assume(c.eng.typeFacts(nv.S, pre.T))
			if sl, ok := under(pre.T).(*types.Slice); ok {
				// same window, new contents
				nb := c.fresh("upd_"+pname, fmt.Sprintf("(Array Int %s)", c.eng.sortOf(sl.Elem())))
				nv.S = app("mk_"+pre.Sort, nb, acc("off_"+pre.Sort, pre.S), acc("len_"+pre.Sort, pre.S), acc("nil_"+pre.Sort, pre.S))
			}
			saved2 := st.bound
			st.bound = saved
			target := ast.Unparen(c.curCallArgs[pos])
			for {
				// a conversion T(x) of a slice variable shares x's elements
				ce, ok := target.(*ast.CallExpr)
				if !ok || len(ce.Args) != 1 {
					break
				}
				if tv, ok := c.eng.info.Types[ce.Fun]; !ok || !tv.IsType() {
					break
				}
				target = ast.Unparen(ce.Args[0])
				if tt := c.eng.info.TypeOf(target); tt != nil {
					nv = &Val{T: tt, S: nv.S, Sort: nv.Sort}
				}
			}
			c.assign(st, target, nv)
			st.bound = saved2
			st.bound["$oldparam:"+pname] = pre
			st.bound[pname] = nv
		}
	}
	// a call written inside a specification: the callee's postconditions are
	// assumed for it, but calls nested inside those postconditions only get
	// their result term (a recursive pure function would otherwise unfold for ever)
	if specCall && (c.specPostDepth > 0 || (con.Pure && key == c.key)) {
		// (the function under verification calling itself, or mentioning
		// itself in its own contract, only needs the result term)
		st.bound = saved
		st.old = savedOld
		if len(results) == 1 {
			return results
		}
		return results
	}
	if specCall && con.Pure && len(results) > 0 {
		// the postconditions of one and the same application are assumed once
		memo := "$specpost:" + key
		for _, r := range results {
			memo += " " + r.S
		}
		if st.facts[memo] {
			st.bound = saved
			st.old = savedOld
			return results
		}
		st.facts[memo] = true
	}
	if specCall || (con.Pure && key == c.key) {
		// (a recursive call of the pure function under verification gets its
		// postconditions, but mentions of the function inside them stay folded)
		c.specPostDepth++
		defer func() { c.specPostDepth-- }()
	}
	for _, cl := range con.clauses("ensures") {
		v := c.eval(st, cl.Expr)
		if len(specPre) > 0 {
			st.assume(mkImplies(mkAnd(specPre...), v.forAssume()))
			continue
		}
		st.assume(c.skolemize(v.forAssume()))
	}
	if len(con.clauses("like")) > 0 {
		env := map[string]*Val{}
		for k, v := range st.bound {
			if !strings.HasPrefix(k, "$") {
				env[k] = v
			}
		}
		c.likeClauses(st, con, env, results, func(cl *Clause, idx int, f, text string) { st.assume(f) })
	}
	st.bound = saved
	st.old = savedOld
	return results
}

// havocForCall forgets everything the callee may modify.
// invalidates: does a call of key end the validity of transient slices?
func (e *Engine) invalidates(key string, con *Contract) bool {
	if con.Invalidates {
		return true
	}
	if _, isRepo := e.funcs[key]; isRepo && !con.Assumed {
		for f := range e.modsetOf(key).traces {
			if fc := e.spec.Contracts[f]; fc != nil && fc.Invalidates {
				return true
			}
		}
	}
	return false
}

// transientSort: the sort of slices that can be transient ([]byte, the only
// borrowed results of the standard library the package uses), "" if no
// contract declares "invalidates".
func (e *Engine) transientSort() string {
	if e.transSort == nil {
		t := ""
		for _, con := range e.spec.Contracts {
			if con.Invalidates {
				t = e.sortOf(types.NewSlice(types.Typ[types.Uint8]))
			}
		}
		e.transSort = &t
	}
	return *e.transSort
}

// transientTerm: transient(v) - the slice v may share storage that its
// provider reuses at its next call (bufio.Reader.ReadLine's line).
func (c *FuncCtx) transientTerm(v *Val) string {
	if !strings.HasPrefix(v.Sort, "Sl_") {
		limitf("transient: not a slice")
	}
	uf := "transient_" + v.Sort
	c.eng.declareUF(uf, fmt.Sprintf("(declare-fun %s (%s) Bool)", uf, v.Sort))
	return mkAnd(mkNot(acc("nil_"+v.Sort, v.S)), app(uf, v.S))
}

// invalidateTransients: after the call every slice variable that may be
// transient holds arbitrary contents (the value model keeps slices as values,
// so this is where borrowed storage being overwritten shows).
func (c *FuncCtx) invalidateTransients(st *State) {
	var vs []*types.Var
	for o, v := range st.vars {
		if v != nil && strings.HasPrefix(v.Sort, "Sl_") && !c.heapLocals[o] {
			if c.eng.transientSort() == v.Sort {
				vs = append(vs, o)
			}
		}
	}
	sort.Slice(vs, func(i, j int) bool { return vs[i].Pos() < vs[j].Pos() })
	for _, o := range vs {
		old := st.vars[o]
		nv := c.fresh(o.Name(), old.Sort)
		st.assume(mkOr(c.transientTerm(old), mkEq(nv, old.S)))
		st.assume(c.eng.typeFacts(nv, o.Type()))
		st.vars[o] = &Val{T: o.Type(), S: nv, Sort: old.Sort}
	}
}

func (c *FuncCtx) havocForCall(st *State, con *Contract, key string) {
	if c.eng.invalidates(key, con) {
		c.invalidateTransients(st)
	}
	if _, isRepo := c.eng.funcs[key]; isRepo && !con.Assumed {
		for _, f := range sortedKeys(c.eng.modsetOf(key).traces) {
			c.traceHavoc(st, f)
		}
	}
	as := con.clauses("assigns")
	if len(as) > 0 {
		for _, cl := range as {
			if cl.Nothing {
				continue
			}
			for _, e := range cl.Assigns {
				c.havocLocation(st, e)
			}
		}
		return
	}
	if con.Assumed {
		// assumed contracts without an assigns clause modify nothing visible
		return
	}
	ms := c.eng.modsetOf(key)
	for _, k := range sortedKeys(ms.fields) {
		c.havocKey(st, k, ms.fields[k])
	}
}

func (c *FuncCtx) havocKey(st *State, k string, ft types.Type) {
	if strings.HasPrefix(k, "ghost.") {
		c.ghostHavoc(st, strings.TrimPrefix(k, "ghost."), nil)
		return
	}
	parts := strings.SplitN(k, ".", 2)
	c.heapArr(st, parts[0], parts[1], ft)
	st.heap[k] = c.fresh("H_"+parts[0]+"_"+parts[1], fmt.Sprintf("(Array Int %s)", c.eng.sortOf(ft)))
}

// havocLocation: "p.f" (one cell) or "T.f" with T a struct type name (the
// whole field array).
func (c *FuncCtx) havocLocation(st *State, e ast.Expr) {
	switch g := e.(type) {
	case *ast.CallExpr:
		if id, ok := g.Fun.(*ast.Ident); ok && c.eng.isGhost(id.Name) {
			c.ghostHavoc(st, id.Name, g.Args[0])
			return
		}
	case *ast.Ident:
		if c.eng.isGhost(g.Name) {
			c.ghostHavoc(st, g.Name, nil)
			return
		}
	}
	sel, ok := e.(*ast.SelectorExpr)
	if !ok {
		limitf("assigns clause must list field locations")
	}
	if id, ok := sel.X.(*ast.Ident); ok {
		if _, bound := st.bound[id.Name]; !bound {
			if tn, ok := c.eng.pkg.Types.Scope().Lookup(id.Name).(*types.TypeName); ok {
				stt, ok := tn.Type().Underlying().(*types.Struct)
				if !ok {
					limitf("assigns: %s is not a struct", id.Name)
				}
				for i := 0; i < stt.NumFields(); i++ {
					if stt.Field(i).Name() == sel.Sel.Name {
						c.havocKey(st, heapKey(id.Name, sel.Sel.Name), stt.Field(i).Type())
						return
					}
				}
				limitf("assigns: no field %s.%s", id.Name, sel.Sel.Name)
			}
		}
	}
	base := c.eval(st, sel.X)
	sname, fld, ref := c.resolveFieldRef(st, base, sel.Sel.Name, sel.Pos())
	arr := c.heapArr(st, sname, fld.Name(), fld.Type())
	nv := c.fresh("hv_"+sname+"_"+fld.Name(), c.eng.sortOf(fld.Type()))
	st.heap[heapKey(sname, fld.Name())] = mkStore(arr, ref, nv)
	st.assume(c.eng.typeFacts(nv, fld.Type()))
}

// resolveFieldRef finds the heap cell (struct name, field, reference) that a
// selector base.name denotes, following embedded pointers.
func (c *FuncCtx) resolveFieldRef(st *State, base *Val, name string, pos token.Pos) (string, *types.Var, string) {
	obj, path, _ := types.LookupFieldOrMethod(base.T, true, c.eng.pkg.Types, name)
	fv, ok := obj.(*types.Var)
	if !ok {
		limitf("%s: %q is not a field", c.eng.posStr(pos), name)
	}
	cur := base
	for _, idx := range path[:len(path)-1] {
		cur = c.fieldStep(st, cur, idx, pos)
	}
	p, ok := under(cur.T).(*types.Pointer)
	if !ok || !c.eng.isHeapStruct(p.Elem()) {
		limitf("%s: %q is not a heap location", c.eng.posStr(pos), name)
	}
	return structName(p.Elem()), fv, cur.S
}

// ----------------------------------------------------------- inlining ---

// inlinePure evaluates a side-effect-free callee whose body is a chain of
// local definitions, if-return and return statements as one expression.
func (c *FuncCtx) inlinePure(st *State, key string, fd *ast.FuncDecl, sig *types.Signature, recv *Val, args []*Val, pos token.Pos) ([]*Val, bool) {
	if c.inlineDepth > 6 || sig.Results().Len() == 0 {
		return nil, false
	}
	if !pureChain(fd.Body.List) {
		return nil, false
	}
	// bind parameters
	var bound []*types.Var
	bind := func(id *ast.Ident, v *Val) {
		if o, ok := c.eng.info.Defs[id].(*types.Var); ok && o != nil {
			st.vars[o] = v
			bound = append(bound, o)
		}
	}
	if fd.Recv != nil && len(fd.Recv.List) == 1 && len(fd.Recv.List[0].Names) == 1 {
		bind(fd.Recv.List[0].Names[0], recv)
	}
	i := 0
	for _, f := range fd.Type.Params.List {
		for _, n := range f.Names {
			bind(n, args[i])
			i++
		}
	}
	c.inlineDepth++
	savedDecl := c.curDecl
	c.curDecl = fd
	heapBefore := fmt.Sprint(st.heap)
	vals := c.chainValue(st, fd.Body.List, sig)
	c.curDecl = savedDecl
	c.inlineDepth--
	for _, o := range bound {
		delete(st.vars, o)
	}
	if vals == nil {
		return nil, false
	}
	_ = heapBefore
	return vals, true
}

func pureChain(stmts []ast.Stmt) bool {
	for i, s := range stmts {
		switch x := s.(type) {
		case *ast.ReturnStmt:
			return i == len(stmts)-1 && len(x.Results) > 0
		case *ast.IfStmt:
			if x.Init != nil {
				if as, ok := x.Init.(*ast.AssignStmt); !ok || as.Tok != token.DEFINE {
					return false
				}
			}
			if !pureChainBlock(x.Body.List) {
				return false
			}
			if x.Else != nil {
				switch e := x.Else.(type) {
				case *ast.BlockStmt:
					if !pureChainBlock(e.List) {
						return false
					}
				case *ast.IfStmt:
					if !pureChain([]ast.Stmt{e, &ast.ReturnStmt{Results: []ast.Expr{ast.NewIdent("nil")}}}) {
						return false
					}
				default:
					return false
				}
			}
		case *ast.AssignStmt:
			if x.Tok != token.DEFINE {
				return false
			}
		case *ast.DeclStmt:
		default:
			return false
		}
	}
	return false
}

func pureChainBlock(stmts []ast.Stmt) bool {
	if len(stmts) == 0 {
		return false
	}
	return pureChain(stmts)
}

// chainValue computes the value of a pure chain as nested ite terms.
func (c *FuncCtx) chainValue(st *State, stmts []ast.Stmt, sig *types.Signature) []*Val {
	if len(stmts) == 0 {
		return nil
	}
	switch x := stmts[0].(type) {
	case *ast.ReturnStmt:
		var vs []*Val
		if len(x.Results) == 1 && sig.Results().Len() > 1 {
			vs = c.evalMulti(st, x.Results[0])
		} else {
			for _, r := range x.Results {
				vs = append(vs, c.eval(st, r))
			}
		}
		for i := range vs {
			vs[i] = c.coerce(st, vs[i], sig.Results().At(i).Type())
		}
		return vs
	case *ast.AssignStmt:
		c.execAssign(st, x)
		return c.chainValue(st, stmts[1:], sig)
	case *ast.DeclStmt:
		c.execDecl(st, x)
		return c.chainValue(st, stmts[1:], sig)
	case *ast.IfStmt:
		if x.Init != nil {
			c.execAssign(st, x.Init.(*ast.AssignStmt))
		}
		cond := c.eval(st, x.Cond)
		st.guard = append(st.guard, cond.S)
		thenV := c.chainValue(st, x.Body.List, sig)
		st.guard = st.guard[:len(st.guard)-1]
		st.guard = append(st.guard, mkNot(cond.S))
		var elseV []*Val
		if x.Else != nil {
			switch e := x.Else.(type) {
			case *ast.BlockStmt:
				elseV = c.chainValue(st, e.List, sig)
			case *ast.IfStmt:
				elseV = c.chainValue(st, append([]ast.Stmt{e}, stmts[1:]...), sig)
			}
		} else {
			elseV = c.chainValue(st, stmts[1:], sig)
		}
		st.guard = st.guard[:len(st.guard)-1]
		if thenV == nil || elseV == nil {
			return nil
		}
		out := make([]*Val, len(thenV))
		for i := range thenV {
			out[i] = &Val{T: thenV[i].T, S: mkIte(cond.S, thenV[i].S, elseV[i].S), Sort: thenV[i].Sort}
		}
		return out
	}
	return nil
}

// ----------------------------------------------------- external calls ---

func (c *FuncCtx) callExternal(st *State, key string, fn *types.Func, recv *Val, x *ast.CallExpr) []*Val {
	// a contract specialised on the static type of the first argument
	// (sort.Sort.commandList) takes precedence and sees the argument unboxed
	if len(x.Args) == 1 && !c.inSpec(st) {
		if t := c.typeOf(x.Args[0]); t != nil {
			if n, ok := t.(*types.Named); ok {
				if sc := c.eng.spec.Contracts[key+"."+n.Obj().Name()]; sc != nil {
					v := c.eval(st, x.Args[0])
					savedArgs := c.curCallArgs
					c.curCallArgs = x.Args
					sig := types.NewSignatureType(nil, nil, nil, types.NewTuple(types.NewVar(token.NoPos, nil, "data", t)), nil, false)
					r := c.applyContract(st, sc, sig, nil, []*Val{v}, x.Pos(), key+"."+n.Obj().Name())
					c.curCallArgs = savedArgs
					return r
				}
			}
		}
	}
	con := c.eng.spec.Contracts[key]
	if con == nil {
		con = c.eng.synthPure(key, fn)
	}
	if con == nil {
		limitf("%s: call of %s needs an assumed contract", c.eng.posStr(x.Pos()), key)
	}
	if fn == nil {
		limitf("%s: cannot resolve %s", c.eng.posStr(x.Pos()), key)
	}
	sig := fn.Type().(*types.Signature)
	var args []*Val
	savedArgs := c.curCallArgs
	c.curCallArgs = x.Args
	c.lastVariadic = nil
	args = c.evalArgs(st, sig, x)
	variadic := c.lastVariadic
	r := c.applyContract(st, con, sig, recv, args, x.Pos(), key)
	c.curCallArgs = savedArgs
	c.formatFacts(st, key, sig, args, variadic, x)
	return r
}

// callFuncValue: calling a func-typed variable or field. With a contract
// under the given key that contract is used; otherwise the call is an opaque
// deterministic function of its arguments that leaves the package's state
// alone (trusted: user callbacks do not mutate the parser).
func (c *FuncCtx) callFuncValue(st *State, fv *Val, key string, x *ast.CallExpr) []*Val {
	sig, ok := under(fv.T).(*types.Signature)
	if !ok {
		limitf("%s: call of non-function value", c.eng.posStr(x.Pos()))
	}
	c.safe(st, "nilfunc", x.Pos(), mkNot(mkEq(fv.S, "0")), "call of nil func value")
	args := c.evalArgs(st, sig, x)
	if con := c.eng.spec.Contracts[key]; con != nil {
		return c.applyContract(st, con, sig, nil, args, x.Pos(), key)
	}
	// A function literal of this very function, still known to be the value of
	// the variable (bound once, no merge lost it), whose body is a side-effect
	// free chain of ifs ending in a return: the call is the body, evaluated in
	// the current state - captured variables are read as they are now, as Go
	// closures do (benign change B41: a repeated test hoisted into a literal).
	if fl := fv.Closure; fl != nil && fl.Body != nil && pureChain(fl.Body.List) {
		fd := &ast.FuncDecl{Name: ast.NewIdent(key), Type: fl.Type, Body: fl.Body}
		if vals, ok := c.inlinePure(st, key, fd, sig, nil, args, x.Pos()); ok {
			return vals
		}
	}
	// results are unconstrained (a callback may answer differently each time)
	var results []*Val
	for i := 0; i < sig.Results().Len(); i++ {
		rt := sig.Results().At(i).Type()
		srt := c.eng.sortOf(rt)
		v := &Val{T: rt, S: c.fresh("cb_"+key, srt), Sort: srt}
		st.assume(c.eng.typeFacts(v.S, rt))
		results = append(results, v)
	}
	return results
}

// bindLet evaluates "let a, b := E" and binds the names in env.
func (c *FuncCtx) bindLet(st *State, cl *Clause, env map[string]*Val) {
	names := splitTop(cl.Name, ',')
	vs := c.evalMulti(st, cl.Expr)
	if len(vs) != len(names) {
		limitf("let %s: %d names for %d values", cl.Name, len(names), len(vs))
	}
	for i, n := range names {
		if n != "_" {
			env[n] = vs[i]
		}
	}
}

// likeClauses expands "like Callee(args...) when cond": the callee's ensures
// clauses, instantiated with the given arguments (evaluated in the pre-state)
// and with the callee's result names bound to this function's results, each
// guarded by cond (also a pre-state condition).  emit receives the guarded
// formula of every inherited clause.
func (c *FuncCtx) likeClauses(st *State, con *Contract, env map[string]*Val, results []*Val, emit func(cl *Clause, idx int, formula string, text string)) {
	c.likeClausesM(st, con, env, results, false, emit)
}

func (c *FuncCtx) likeClausesM(st *State, con *Contract, env map[string]*Val, results []*Val, check bool, emit func(cl *Clause, idx int, formula string, text string)) {
	for li, lk := range con.clauses("like") {
		key := traceNameOf(lk.Like.Fun)
		callee := c.eng.spec.Contracts[key]
		if callee == nil {
			limitf("like: no contract named %s", key)
		}
		// pre-state evaluation of condition and arguments
		saved := st.bound
		nb := map[string]*Val{"$spec": {S: "1"}}
		for k, v := range saved {
			if strings.HasPrefix(k, "$") {
				nb[k] = v
			}
		}
		for k, v := range env {
			nb[k] = v
		}
		st.bound = nb
		cond := c.evalOld(st, lk.Expr)
		var args []*Val
		for _, a := range lk.Like.Args {
			args = append(args, c.evalOld(st, a))
		}
		st.bound = saved
		var recv *Val
		if callee.Decl.Recv != nil {
			if len(args) == 0 {
				limitf("like %s: receiver argument missing", key)
			}
			recv, args = args[0], args[1:]
		}
		// coerce to the callee's parameter types where known
		if fd, ok := c.eng.funcs[key]; ok {
			sig := c.eng.info.Defs[fd.Name].(*types.Func).Type().(*types.Signature)
			for i := range args {
				if i < sig.Params().Len() {
					args[i] = c.coerce(st, args[i], sig.Params().At(i).Type())
				}
			}
		}
		env2 := bindHeader(callee, recv, args)
		names := headerResults(callee)
		var ignored []string // fresh constants standing for discarded results
		var ignoredSorts []string
		if lk.NoResult {
			// the callee's results are discarded by this function
			if fd, ok := c.eng.funcs[key]; ok {
				sig := c.eng.info.Defs[fd.Name].(*types.Func).Type().(*types.Signature)
				for i, n := range names {
					if n != "" && i < sig.Results().Len() {
						rt := sig.Results().At(i).Type()
						env2[n] = c.val(c.fresh("ignored_"+n, c.eng.sortOf(rt)), rt)
						ignored = append(ignored, env2[n].S)
						ignoredSorts = append(ignoredSorts, env2[n].Sort)
					}
				}
			}
		} else {
			for i, n := range names {
				if n != "" && i < len(results) {
					env2[n] = results[i]
				}
			}
			if len(results) == 1 {
				env2["$result"] = results[0]
			}
		}
		// callee lets: pre-state
		for _, cl := range callee.clauses("let") {
			saved := st.bound
			nb := map[string]*Val{"$spec": {S: "1"}}
			for k, v := range env2 {
				nb[k] = v
			}
			st.bound = nb
			// evaluate in the pre-state
			tmp := st.old.clone()
			tmp.bound = nb
			tmp.pc = st.pc
			tmp.facts = st.facts
			tmp.old = st.old
			c.bindLet(tmp, cl, env2)
			st.pc = tmp.pc
			st.bound = saved
		}
		var collected []string
		for ei, cl := range callee.clauses("ensures") {
			saved := st.bound
			nb := map[string]*Val{"$spec": {S: "1"}}
			for k, v := range saved {
				if k == "$pos" {
					nb[k] = v
				}
			}
			for k, v := range env2 {
				nb[k] = v
			}
			st.bound = nb
			v := c.eval(st, cl.Expr)
			st.bound = saved
			tags := lk.Tags
			if len(tags) == 0 {
				tags = cl.Tags
			}
			if check && len(ignored) > 0 {
				collected = append(collected, v.S)
				continue
			}
			emit(&Clause{Kind: "ensures", Tags: tags, Text: cl.Text, Expr: cl.Expr, Line: lk.Line}, li*100+ei, mkImplies(cond.S, v.S), fmt.Sprintf("like %s: %s", lk.Text, cl.Text))
		}
		if check && len(ignored) > 0 {
			// the discarded result is existentially quantified: some result
			// makes all inherited clauses true together
			body := mkAnd(collected...)
			var qs []string
			for i, name := range ignored {
				bv := c.bvar("ignored")
				body = strings.ReplaceAll(body, name, bv)
				qs = append(qs, fmt.Sprintf("(%s %s)", bv, ignoredSorts[i]))
			}
			f := fmt.Sprintf("(exists (%s) %s)", strings.Join(qs, " "), body)
			emit(&Clause{Kind: "ensures", Tags: lk.Tags, Text: lk.Text, Line: lk.Line}, li*100, mkImplies(cond.S, f), "like "+lk.Text+" (for some discarded result)")
		}
	}
}

type writeBack struct {
	target ast.Expr
	ref    string
	t      types.Type
}

func selRootIdent(sel *ast.SelectorExpr) *ast.Ident {
	for {
		switch x := ast.Unparen(sel.X).(type) {
		case *ast.Ident:
			return x
		case *ast.SelectorExpr:
			sel = x
		default:
			return nil
		}
	}
}

// formatFacts: for a printf-style call with a CONSTANT format whose verbs are
// %s %v %d %c %% the formatted text is spelled out as a concatenation, stated
// as a fact about fmt.Sprintf(format, args...) (the uninterpreted function the
// contracts of Sprintf/Errorf/newErrorf talk about). Integers render through
// the uninterpreted itoa, values with a String/Error method through the
// corresponding pure function, anything else through fmtAny.
func (c *FuncCtx) formatFacts(st *State, key string, sig *types.Signature, args []*Val, variadic []*Val, x *ast.CallExpr) {
	fpos := map[string]int{"fmt.Sprintf": 0, "fmt.Errorf": 0, "fmt.Fprintf": 1, "newErrorf": 1}
	p, ok := fpos[key]
	if !ok || c.inSpec(st) || x.Ellipsis.IsValid() || p >= len(args) || p+1 >= len(args) {
		return
	}
	format, ok2 := smtStringToGo(args[p].S)
	if !ok2 {
		return
	}
	var parts []string
	lit := func(s string) {
		if s != "" {
			parts = append(parts, smtString(s))
		}
	}
	ai := 0
	cur := ""
	for i := 0; i < len(format); i++ {
		ch := format[i]
		if ch != '%' {
			cur += string(ch)
			continue
		}
		if i+1 >= len(format) {
			return
		}
		i++
		verb := format[i]
		if verb == '%' {
			cur += "%"
			continue
		}
		if ai >= len(variadic) {
			return
		}
		a := variadic[ai]
		ai++
		var t string
		switch {
		case (verb == 's' || verb == 'v') && a.Sort == "String":
			t = a.S
		case (verb == 'd' || verb == 'v') && a.Sort == "Int" && isIntegerType(a.T):
			c.eng.declareUF("itoa", "(declare-fun itoa (Int) String)")
			t = app("itoa", a.S)
		case verb == 'c' && a.Sort == "Int":
			c.eng.declareUF("runeStr", "(declare-fun runeStr (Int) String)")
			t = app("runeStr", a.S)
		case verb == 's' || verb == 'v':
			t = c.stringerTerm(st, a)
		default:
			return
		}
		lit(cur)
		cur = ""
		parts = append(parts, t)
	}
	lit(cur)
	if ai != len(variadic) {
		return
	}
	text := `""`
	for _, pt := range parts {
		text = strConcat(text, pt)
	}
	// the Sprintf term over the same (boxed) arguments
	uf := "uf_fmt_Sprintf"
	argsSort := args[p+1].Sort
	c.eng.declareUF(uf, fmt.Sprintf("(declare-fun %s (String %s) String)", uf, argsSort))
	st.assume(mkEq(app(uf, args[p].S, args[p+1].S), text))
}

func isIntegerType(t types.Type) bool {
	if t == nil {
		return true
	}
	b, ok := under(t).(*types.Basic)
	return ok && b.Info()&types.IsInteger != 0
}

// stringerTerm: how fmt renders a non-string value with %s / %v.
func (c *FuncCtx) stringerTerm(st *State, a *Val) string {
	if a.T != nil {
		if obj, _, _ := types.LookupFieldOrMethod(a.T, true, c.eng.pkg.Types, "Error"); obj != nil {
			if _, isFn := obj.(*types.Func); isFn && a.Sort == "Iface" {
				c.eng.declareUF("uf_error_Error", "(declare-fun uf_error_Error (Iface) String)")
				return app("uf_error_Error", a.S)
			}
		}
		if obj, _, _ := types.LookupFieldOrMethod(a.T, true, c.eng.pkg.Types, "String"); obj != nil {
			if fn, isFn := obj.(*types.Func); isFn {
				if k, ok := c.eng.fobjs[fn]; ok {
					uf := "uf_" + sortIdent(strings.ReplaceAll(k, ".", "_"))
					c.eng.declareUF(uf, fmt.Sprintf("(declare-fun %s (%s) String)", uf, a.Sort))
					return app(uf, a.S)
				}
			}
		}
	}
	uf := "fmtAny_" + sortIdent(a.Sort)
	c.eng.declareUF(uf, fmt.Sprintf("(declare-fun %s (%s) String)", uf, a.Sort))
	return app(uf, a.S)
}

// purePackages: standard-library packages whose package-level functions have
// no side effects and answer deterministically.  A call of one that has no
// assumed contract in the contract file is treated as an uninterpreted pure
// function of its arguments (nothing is known about its result).
var purePackages = map[string]bool{"strings": true, "strconv": true, "unicode": true, "unicode/utf8": true, "math": true, "path": true, "path/filepath": false, "bytes": true}

func (e *Engine) synthPure(key string, fn *types.Func) *Contract {
	if fn == nil || fn.Pkg() == nil || !purePackages[fn.Pkg().Path()] {
		return nil
	}
	sig, ok := fn.Type().(*types.Signature)
	if !ok || sig.Recv() != nil || sig.Results().Len() == 0 {
		return nil
	}
	q := func(p *types.Package) string { return p.Name() }
	var ps, rs []string
	for i := 0; i < sig.Params().Len(); i++ {
		t := sig.Params().At(i).Type()
		ts := types.TypeString(t, q)
		if sig.Variadic() && i == sig.Params().Len()-1 {
			ts = "..." + types.TypeString(t.(*types.Slice).Elem(), q)
		}
		ps = append(ps, fmt.Sprintf("a%d %s", i, ts))
	}
	for i := 0; i < sig.Results().Len(); i++ {
		rs = append(rs, fmt.Sprintf("r%d %s", i, types.TypeString(sig.Results().At(i).Type(), q)))
	}
	hdr := fmt.Sprintf("func %s(%s) (%s)", key, strings.Join(ps, ", "), strings.Join(rs, ", "))
	con, err := parseHeader(hdr, 0)
	if err != nil {
		return nil
	}
	con.Assumed = true
	con.Pure = true
	con.Synth = true
	e.spec.Contracts[key] = con
	return con
}

// inlineBody executes the body of a package function that has no contract in
// place of the call, when the body has no loop, does not call itself and takes
// no address of a local (a helper extracted from a function under contract is
// the typical case).  The outcomes of the body are merged into one state.
func (c *FuncCtx) inlineBody(st *State, key string, fd *ast.FuncDecl, sig *types.Signature, recv *Val, args []*Val, pos token.Pos) ([]*Val, bool) {
	if c.inlineDepth > 3 || c.inSpec(st) || fd == nil || fd.Body == nil || key == c.key {
		return nil, false
	}
	ok := true
	ast.Inspect(fd.Body, func(n ast.Node) bool {
		switch x := n.(type) {
		case *ast.ForStmt, *ast.RangeStmt, *ast.GoStmt, *ast.DeferStmt, *ast.SelectStmt, *ast.FuncLit, *ast.LabeledStmt:
			ok = false
		case *ast.BranchStmt:
			if x.Tok == token.GOTO {
				ok = false
			}
		case *ast.UnaryExpr:
			if x.Op == token.AND {
				if _, isLit := ast.Unparen(x.X).(*ast.CompositeLit); !isLit {
					ok = false
				}
			}
		case *ast.CallExpr:
			if c.eng.calleeKeyOf(x) == key {
				ok = false
			}
			if sel, isSel := x.Fun.(*ast.SelectorExpr); isSel && iteratorNames[sel.Sel.Name] {
				ok = false
			}
		}
		return ok
	})
	if !ok {
		return nil, false
	}
	work := st.clone()
	fr := &frame{decl: fd, parent: st.frame}
	var bound []*types.Var
	bind := func(id *ast.Ident, v *Val) {
		if o, isVar := c.eng.info.Defs[id].(*types.Var); isVar && o != nil && v != nil {
			work.vars[o] = v
			bound = append(bound, o)
		}
	}
	if fd.Recv != nil && len(fd.Recv.List) == 1 && len(fd.Recv.List[0].Names) == 1 {
		bind(fd.Recv.List[0].Names[0], recv)
	}
	i := 0
	if fd.Type.Params != nil {
		for _, f := range fd.Type.Params.List {
			for _, n := range f.Names {
				if i < len(args) {
					bind(n, args[i])
				}
				i++
			}
			if len(f.Names) == 0 {
				i++
			}
		}
	}
	k := 0
	if fd.Type.Results != nil {
		for _, f := range fd.Type.Results.List {
			names := f.Names
			if len(names) == 0 {
				names = []*ast.Ident{nil}
			}
			for _, n := range names {
				var rv *types.Var
				if n != nil {
					rv, _ = c.eng.info.Defs[n].(*types.Var)
				}
				if rv == nil {
					rv = types.NewVar(token.NoPos, c.eng.pkg.Types, fmt.Sprintf("$inl%d_r%d", c.inlineDepth, k), sig.Results().At(k).Type())
				}
				fr.results = append(fr.results, rv)
				work.vars[rv] = c.val(c.eng.zero(rv.Type()), rv.Type())
				bound = append(bound, rv)
				k++
			}
		}
	}
	work.frame = fr
	c.inlineDepth++
	savedDecl := c.curDecl
	c.curDecl = fd
	outs := c.execBlock(work, fd.Body.List)
	c.curDecl = savedDecl
	c.inlineDepth--
	var ends []*State
	for _, o := range outs {
		switch o.kind {
		case oReturn:
			ends = append(ends, o.st)
		case oNext:
			if sig.Results().Len() == 0 {
				ends = append(ends, o.st)
			}
		default:
			limitf("%s: break/continue escaped the body of %s", c.eng.posStr(pos), key)
		}
	}
	m := c.mergeStates(ends)
	if m == nil {
		// the body cannot return (every path is dead): so is the caller's path
		st.dead = true
		st.assume(tFalse)
		var rs []*Val
		for j := 0; j < sig.Results().Len(); j++ {
			rt := sig.Results().At(j).Type()
			rs = append(rs, c.val(c.eng.zero(rt), rt))
		}
		return rs, true
	}
	var rs []*Val
	for _, rv := range fr.results {
		rs = append(rs, m.vars[rv])
	}
	for _, o := range bound {
		delete(m.vars, o)
	}
	m.frame = st.frame
	m.bound = st.bound
	m.old = st.old
	*st = *m
	return rs, true
}
