package main

// Parser for the contract file /repo/contracts_verif.go.
//
// The file is comment-only Go (build tag verif). Every line that starts with
// "//@" belongs to the contract language:
//
//   //@ func (p *parseState) pop() (r string)        contract of a repo function (verified)
//   //@ assumed func strings.TrimSpace(s string) (r string)   trusted contract (library or out-of-subset)
//   //@   props C03 C10                               properties the function's untagged obligations carry
//   //@   requires E
//   //@   ensures[C03,C10] E                          clause tagged with the properties it carries
//   //@   loop 1 invariant E
//   //@   loop 1 decreases E
//   //@   decreases E
//   //@   assigns p.arg, p.args | nothing
//   //@   pure                                         (assumed funcs) result is a function of the arguments
//   //@   let x := E
//   //@ pure func name(a int, s string) int = E        spec function (define-fun / define-fun-rec)
//   //@ axiom name: E                                  trusted fact
//   //@ lemma[C02] name: E                             proved fact
//
// A line ending in "\" continues on the next //@ line.  Expressions are Go
// expressions extended with  ==>  <==>  and the call forms forall(i, lo, hi, P),
// exists(i, lo, hi, P), old(e), implies(a,b), iff(a,b), ite(c,a,b).

import (
	"bufio"
	"fmt"
	"go/ast"
	"go/parser"
	"go/token"
	"os"
	"strconv"
	"strings"
)

type Clause struct {
	Kind string // requires ensures invariant decreases assigns let
	Tags []string
	Text string
	Expr ast.Expr
	Loop int
	Line int
	Name string // for let
	// assigns: list of expressions, or nothing
	Assigns   []ast.Expr
	Nothing   bool
	Like      *ast.CallExpr // like: callee contract instantiated with these arguments
	Lit       string        // at call K "lit": the call site is addressed by a string literal argument
	HasLit    bool
	CheckOnly bool // asserted, not assumed
	NoResult  bool
}

type Contract struct {
	Sweep        bool   // empty contract synthesised by 'govc sweep'
	Synth        bool   // synthesised for an unlisted pure library function
	Key          string // "pop" / "parseState.pop" / "strings.TrimSpace"
	Assumed      bool
	Pure         bool
	Header       string
	Decl         *ast.FuncDecl // parsed header (names for params/results)
	Props        []string
	Clauses      []*Clause
	Line         int
	Traced       bool
	Invalidates  bool // each call invalidates the transient (borrowed) slices handed out earlier
	NoInline     bool
	NoMerge      bool // explore paths separately (no state merging at joins)
	allSpecFuncs []string
	Bounded      string // free text: function is checked by a bounded stand-in only
}

type SpecFunc struct {
	Name string
	Decl *ast.FuncDecl
	Body ast.Expr
	Rec  bool
	Text string
	Line int
}

type Fact struct {
	Kind string // axiom | lemma
	Name string
	Tags []string
	Text string
	Expr ast.Expr
	Line int
	// lemma hints: universally quantified variables: "forall x T, y T :: E"
	Vars   []*ast.Field
	Manual bool
}

type SpecFile struct {
	Contracts map[string]*Contract
	Bodies    map[string]*Contract // "body func": body-only contracts of assumed functions
	BodyOrder []string
	Order     []string
	Funcs     map[string]*SpecFunc
	FuncOrder []string
	Facts     []*Fact
	Raw       []string
	WfNonNil  bool
	Homs      []string
	Ghosts    map[string]*ast.FuncDecl
}

func (c *Contract) clauses(kind string) []*Clause {
	var out []*Clause
	for _, cl := range c.Clauses {
		if cl.Kind == kind {
			out = append(out, cl)
		}
	}
	return out
}

func (c *Contract) peels(n int) bool {
	return len(c.loopClauses("peel", n)) > 0
}

func (c *Contract) loopClauses(kind string, n int) []*Clause {
	var out []*Clause
	for _, cl := range c.Clauses {
		if cl.Kind == kind && cl.Loop == n {
			out = append(out, cl)
		}
	}
	return out
}

func parseSpecFile(path string) (*SpecFile, error) {
	f, err := os.Open(path)
	if err != nil {
		return nil, err
	}
	defer f.Close()
	sf := &SpecFile{Contracts: map[string]*Contract{}, Funcs: map[string]*SpecFunc{}}
	sc := bufio.NewScanner(f)
	sc.Buffer(make([]byte, 1<<20), 1<<20)
	type ln struct {
		text string
		no   int
	}
	var lines []ln
	no := 0
	cont := false
	for sc.Scan() {
		no++
		t := strings.TrimSpace(sc.Text())
		if !strings.HasPrefix(t, "//@") {
			cont = false
			continue
		}
		body := strings.TrimSpace(t[3:])
		// strip trailing comment " // ..." outside string literals
		body = stripTrailingComment(body)
		if body == "" {
			cont = false
			continue
		}
		more := strings.HasSuffix(body, "\\")
		if more {
			body = strings.TrimSpace(strings.TrimSuffix(body, "\\"))
		}
		if cont {
			lines[len(lines)-1].text += " " + body
		} else {
			lines = append(lines, ln{body, no})
		}
		cont = more
	}
	var cur *Contract
	for _, l := range lines {
		sf.Raw = append(sf.Raw, l.text)
		t := l.text
		switch {
		case strings.HasPrefix(t, "pure func "):
			cur = nil
			sp, err := parseSpecFunc(t[len("pure "):], l.no)
			if err != nil {
				return nil, fmt.Errorf("line %d: %v", l.no, err)
			}
			sf.Funcs[sp.Name] = sp
			sf.FuncOrder = append(sf.FuncOrder, sp.Name)
		case strings.HasPrefix(t, "body func "):
			// body func ...: a second contract of a function whose callers keep using
			// its ASSUMED contract (a reflection / tag accessor of the trusted base):
			// only the body is verified against these clauses, nothing is exported
			c, err := parseHeader(strings.TrimPrefix(t, "body "), l.no)
			if err != nil {
				return nil, fmt.Errorf("line %d: %v", l.no, err)
			}
			if sf.Bodies == nil {
				sf.Bodies = map[string]*Contract{}
			}
			if _, dup := sf.Bodies[c.Key]; dup {
				return nil, fmt.Errorf("line %d: duplicate body contract for %s", l.no, c.Key)
			}
			sf.Bodies[c.Key] = c
			sf.BodyOrder = append(sf.BodyOrder, c.Key)
			cur = c
		case strings.HasPrefix(t, "func ") || strings.HasPrefix(t, "assumed func "):
			assumed := strings.HasPrefix(t, "assumed ")
			hdr := strings.TrimPrefix(t, "assumed ")
			c, err := parseHeader(hdr, l.no)
			if err != nil {
				return nil, fmt.Errorf("line %d: %v", l.no, err)
			}
			c.Assumed = assumed
			if _, dup := sf.Contracts[c.Key]; dup {
				return nil, fmt.Errorf("line %d: duplicate contract for %s", l.no, c.Key)
			}
			sf.Contracts[c.Key] = c
			sf.Order = append(sf.Order, c.Key)
			cur = c
		case strings.HasPrefix(t, "ghost "):
			// ghost name(x T) R   - a piece of ghost state indexed by x
			cur = nil
			src := "package p\nfunc " + strings.TrimPrefix(t, "ghost ") + " {}\n"
			fset := token.NewFileSet()
			f, err := parser.ParseFile(fset, "g.go", src, 0)
			if err != nil {
				return nil, fmt.Errorf("line %d: bad ghost declaration: %v", l.no, err)
			}
			fd := f.Decls[0].(*ast.FuncDecl)
			if sf.Ghosts == nil {
				sf.Ghosts = map[string]*ast.FuncDecl{}
			}
			sf.Ghosts[fd.Name.Name] = fd
		case strings.HasPrefix(t, "homomorphism "):
			// a ghost string function h with h(a+b) == h(a)+h(b); the engine
			// states the instance at every string concatenation in code
			cur = nil
			sf.Homs = append(sf.Homs, strings.Fields(t)[1:]...)
		case t == "wf nonnil-elements":
			cur = nil
			sf.WfNonNil = true
		case strings.HasPrefix(t, "axiom ") || strings.HasPrefix(t, "lemma"):
			cur = nil
			fa, err := parseFact(t, l.no)
			if err != nil {
				return nil, fmt.Errorf("line %d: %v", l.no, err)
			}
			sf.Facts = append(sf.Facts, fa)
		default:
			if cur == nil {
				return nil, fmt.Errorf("line %d: clause outside a contract: %s", l.no, t)
			}
			if err := parseClause(cur, t, l.no); err != nil {
				return nil, fmt.Errorf("line %d: %v", l.no, err)
			}
		}
	}
	var sftexts []string
	for _, n := range sf.FuncOrder {
		sftexts = append(sftexts, sf.Funcs[n].Text)
	}
	for _, c := range sf.Contracts {
		c.allSpecFuncs = sftexts
	}
	return sf, nil
}

func stripTrailingComment(s string) string {
	inStr, inRune := false, false
	for i := 0; i+1 < len(s); i++ {
		c := s[i]
		if inStr {
			if c == '\\' {
				i++
			} else if c == '"' {
				inStr = false
			}
			continue
		}
		if inRune {
			if c == '\\' {
				i++
			} else if c == '\'' {
				inRune = false
			}
			continue
		}
		switch c {
		case '"':
			inStr = true
		case '\'':
			inRune = true
		case '/':
			if s[i+1] == '/' {
				return strings.TrimSpace(s[:i])
			}
		}
	}
	return s
}

// parseHeader parses "func (r *T) name(params) (results)" or
// "func pkg.Name(params) (results)".
func parseHeader(hdr string, line int) (*Contract, error) {
	h := hdr
	// external qualified name: func strings.TrimSpace(...)  or func reflect.Value.Kind(...)
	qual := ""
	rest := strings.TrimPrefix(h, "func ")
	if !strings.HasPrefix(rest, "(") {
		// name up to first '('
		i := strings.Index(rest, "(")
		if i < 0 {
			return nil, fmt.Errorf("bad header %q", hdr)
		}
		name := rest[:i]
		if strings.Contains(name, ".") {
			qual = name
			j := strings.LastIndex(name, ".")
			h = "func " + name[j+1:] + rest[i:]
		}
	}
	src := "package p\n" + h + " {}\n"
	fset := token.NewFileSet()
	f, err := parser.ParseFile(fset, "hdr.go", src, 0)
	if err != nil {
		return nil, fmt.Errorf("bad header %q: %v", hdr, err)
	}
	fd := f.Decls[0].(*ast.FuncDecl)
	key := fd.Name.Name
	if fd.Recv != nil && len(fd.Recv.List) == 1 {
		key = recvTypeName(fd.Recv.List[0].Type) + "." + key
	}
	if qual != "" {
		key = qual
	}
	return &Contract{Key: key, Header: hdr, Decl: fd, Line: line}, nil
}

func recvTypeName(e ast.Expr) string {
	switch t := e.(type) {
	case *ast.StarExpr:
		return recvTypeName(t.X)
	case *ast.Ident:
		return t.Name
	case *ast.SelectorExpr:
		return recvTypeName(t.X) + "." + t.Sel.Name
	}
	return "?"
}

func parseTags(s string) (tags []string, rest string) {
	// s begins right after the keyword; optional "[C01,C02]"
	if strings.HasPrefix(s, "[") {
		i := strings.Index(s, "]")
		if i > 0 {
			for _, t := range strings.Split(s[1:i], ",") {
				t = strings.TrimSpace(t)
				if t != "" {
					tags = append(tags, t)
				}
			}
			return tags, strings.TrimSpace(s[i+1:])
		}
	}
	return nil, strings.TrimSpace(s)
}

func parseClause(c *Contract, t string, line int) error {
	word := t
	if i := strings.IndexAny(t, " [\t"); i >= 0 {
		word = t[:i]
	}
	rest := strings.TrimSpace(t[len(word):])
	switch word {
	case "props":
		c.Props = append(c.Props, strings.Fields(rest)...)
	case "pure":
		c.Pure = true
	case "traced":
		c.Traced = true
	case "invalidates":
		c.Invalidates = true
	case "noinline":
		c.NoInline = true
	case "nomerge":
		c.NoMerge = true
	case "bounded":
		c.Bounded = rest
	case "requires", "ensures", "decreases":
		tags, body := parseTags(rest)
		e, err := parseSpecExpr(body)
		if err != nil {
			return fmt.Errorf("%s: %v", word, err)
		}
		c.Clauses = append(c.Clauses, &Clause{Kind: word, Tags: tags, Text: body, Expr: e, Line: line})
	case "like":
		// like[tags] Callee(args...) when cond
		tags, body := parseTags(rest)
		cond := "true"
		noresult := false
		if i := indexTopStr(body, " noresult"); i >= 0 {
			noresult = true
			body = body[:i] + body[i+len(" noresult"):]
		}
		if i := indexTopStr(body, " when "); i >= 0 {
			cond = strings.TrimSpace(body[i+6:])
			body = strings.TrimSpace(body[:i])
		}
		ce, err := parseSpecExpr(body)
		if err != nil {
			return fmt.Errorf("like: %v", err)
		}
		call, ok := ce.(*ast.CallExpr)
		if !ok {
			return fmt.Errorf("like: expected Callee(args...)")
		}
		ccond, err := parseSpecExpr(cond)
		if err != nil {
			return fmt.Errorf("like: %v", err)
		}
		c.Clauses = append(c.Clauses, &Clause{Kind: "like", Tags: tags, Text: rest, Expr: ccond, Like: call, Line: line, NoResult: noresult})
	case "let":
		i := strings.Index(rest, ":=")
		if i < 0 {
			return fmt.Errorf("let without :=")
		}
		name := strings.TrimSpace(rest[:i])
		body := strings.TrimSpace(rest[i+2:])
		e, err := parseSpecExpr(body)
		if err != nil {
			return fmt.Errorf("let: %v", err)
		}
		c.Clauses = append(c.Clauses, &Clause{Kind: "let", Name: name, Text: body, Expr: e, Line: line})
	case "at":
		// at call <key> #<n>: E   - E is asserted (and then assumed) just before
		// the n-th call of <key> in source order; use()/unfold() hints cost nothing
		atTags, rest := parseTags(rest)
		f := strings.Fields(rest)
		// "at check K ...": like "at call", but the clause is only asserted, not
		// assumed afterwards (for clauses that follow from the path anyway: assuming
		// them only adds terms to every later query of the function)
		checkOnly := false
		if len(f) > 0 && f[0] == "check" {
			checkOnly = true
			rest = strings.Replace(rest, "check", "call", 1)
			f[0] = "call"
			defer func() {
				if n := len(c.Clauses); n > 0 && c.Clauses[n-1].Kind == "at" {
					c.Clauses[n-1].CheckOnly = true
				}
			}()
		}
		_ = checkOnly
		if len(f) >= 3 && f[0] == "call" && strings.HasPrefix(f[2], "\"") {
			// at call <key> "literal": E  - the call of <key> that has this string
			// literal among its arguments (must be exactly one): an address that
			// survives edits which add or remove other calls of <key>
			k := strings.Index(rest, f[1]) + len(f[1])
			after := strings.TrimSpace(rest[k:])
			q, err := strconv.QuotedPrefix(after)
			if err != nil {
				return fmt.Errorf("bad literal in 'at' clause: %q", t)
			}
			lit, _ := strconv.Unquote(q)
			tail := strings.TrimSpace(after[len(q):])
			if !strings.HasPrefix(tail, ":") {
				return fmt.Errorf("'at' clause without ':'")
			}
			body := strings.TrimSpace(tail[1:])
			e, err := parseSpecExpr(body)
			if err != nil {
				return fmt.Errorf("at: %v", err)
			}
			c.Clauses = append(c.Clauses, &Clause{Kind: "at", Name: f[1], Loop: -1, Lit: lit, HasLit: true, Text: body, Expr: e, Line: line, Tags: atTags})
			return nil
		}
		if len(f) < 4 || f[0] != "call" || !strings.HasPrefix(f[2], "#") {
			return fmt.Errorf("bad 'at' clause: %q", t)
		}
		nth := strings.TrimSuffix(strings.TrimPrefix(f[2], "#"), ":")
		n, err := strconv.Atoi(nth)
		if err != nil {
			return fmt.Errorf("bad call ordinal in %q", t)
		}
		i := strings.Index(rest, ":")
		if i < 0 {
			return fmt.Errorf("'at' clause without ':'")
		}
		body := strings.TrimSpace(rest[i+1:])
		e, err := parseSpecExpr(body)
		if err != nil {
			return fmt.Errorf("at: %v", err)
		}
		c.Clauses = append(c.Clauses, &Clause{Kind: "at", Name: f[1], Loop: n, Text: body, Expr: e, Line: line, Tags: atTags})
	case "updates":
		// updates p, q: the callee changes the contents of these (slice)
		// parameters in place; the caller's variable gets the new value
		c.Clauses = append(c.Clauses, &Clause{Kind: "updates", Text: rest, Line: line, Name: rest})
	case "assigns":
		cl := &Clause{Kind: "assigns", Text: rest, Line: line}
		if rest == "nothing" {
			cl.Nothing = true
		} else {
			for _, part := range splitTop(rest, ',') {
				e, err := parseSpecExpr(part)
				if err != nil {
					return fmt.Errorf("assigns: %v", err)
				}
				cl.Assigns = append(cl.Assigns, e)
			}
		}
		c.Clauses = append(c.Clauses, cl)
	case "loop":
		f := strings.Fields(rest)
		if len(f) == 2 && f[1] == "peel" {
			n, err := strconv.Atoi(f[0])
			if err != nil {
				return fmt.Errorf("bad loop ordinal %q", f[0])
			}
			c.Clauses = append(c.Clauses, &Clause{Kind: "peel", Loop: n, Line: line})
			return nil
		}
		if len(f) < 3 {
			return fmt.Errorf("bad loop clause %q", t)
		}
		n, err := strconv.Atoi(f[0])
		if err != nil {
			return fmt.Errorf("bad loop ordinal %q", f[0])
		}
		after := strings.TrimSpace(rest[len(f[0]):])
		kw := after
		if i := strings.IndexAny(after, " [\t"); i >= 0 {
			kw = after[:i]
		}
		tags, body := parseTags(strings.TrimSpace(after[len(kw):]))
		checkOnly := false
		if kw == "exitcheck" {
			// like "exit", but only asserted: the fact is not carried into the code after the loop
			kw, checkOnly = "exit", true
		}
		if kw != "invariant" && kw != "decreases" && kw != "exit" {
			return fmt.Errorf("bad loop clause kind %q", kw)
		}
		e, err := parseSpecExpr(body)
		if err != nil {
			return fmt.Errorf("loop %d %s: %v", n, kw, err)
		}
		c.Clauses = append(c.Clauses, &Clause{Kind: kw, Loop: n, Tags: tags, Text: body, Expr: e, Line: line, CheckOnly: checkOnly})
	default:
		return fmt.Errorf("unknown clause %q", word)
	}
	return nil
}

func parseSpecFunc(t string, line int) (*SpecFunc, error) {
	// func name(params) T = expr
	i := indexTop(t, '=')
	if i < 0 {
		return nil, fmt.Errorf("spec func without body: %s", t)
	}
	hdr := strings.TrimSpace(t[:i])
	body := strings.TrimSpace(t[i+1:])
	src := "package p\n" + hdr + " {}\n"
	fset := token.NewFileSet()
	f, err := parser.ParseFile(fset, "sf.go", src, 0)
	if err != nil {
		return nil, fmt.Errorf("bad spec func header %q: %v", hdr, err)
	}
	fd := f.Decls[0].(*ast.FuncDecl)
	e, err := parseSpecExpr(body)
	if err != nil {
		return nil, err
	}
	sp := &SpecFunc{Name: fd.Name.Name, Decl: fd, Body: e, Text: t, Line: line}
	ast.Inspect(e, func(n ast.Node) bool {
		if ce, ok := n.(*ast.CallExpr); ok {
			if id, ok := ce.Fun.(*ast.Ident); ok && id.Name == sp.Name {
				sp.Rec = true
			}
		}
		return true
	})
	return sp, nil
}

func parseFact(t string, line int) (*Fact, error) {
	kind := "axiom"
	rest := strings.TrimPrefix(t, "axiom")
	if strings.HasPrefix(t, "lemma") {
		kind = "lemma"
		rest = strings.TrimPrefix(t, "lemma")
	}
	tags, rest := parseTags(strings.TrimSpace(rest))
	manual := false
	if strings.HasPrefix(rest, "manual ") {
		// not asserted globally; instantiated by use(name, terms...)
		manual = true
		rest = strings.TrimSpace(strings.TrimPrefix(rest, "manual "))
	}
	i := strings.Index(rest, ":")
	if i < 0 {
		return nil, fmt.Errorf("fact without name")
	}
	name := strings.TrimSpace(rest[:i])
	body := strings.TrimSpace(rest[i+1:])
	fa := &Fact{Kind: kind, Name: name, Tags: tags, Text: body, Line: line, Manual: manual}
	// optional "forall x T, y T :: E"
	if strings.HasPrefix(body, "forall ") {
		j := strings.Index(body, "::")
		if j < 0 {
			return nil, fmt.Errorf("forall without ::")
		}
		params := strings.TrimSpace(body[len("forall "):j])
		src := "package p\nfunc f(" + params + ") {}\n"
		fset := token.NewFileSet()
		f, err := parser.ParseFile(fset, "fa.go", src, 0)
		if err != nil {
			return nil, fmt.Errorf("bad quantifier prefix %q: %v", params, err)
		}
		fa.Vars = f.Decls[0].(*ast.FuncDecl).Type.Params.List
		body = strings.TrimSpace(body[j+2:])
	}
	e, err := parseSpecExpr(body)
	if err != nil {
		return nil, err
	}
	fa.Expr = e
	return fa, nil
}

// parseSpecExpr rewrites ==> and <==> into call syntax and parses the result
// as a Go expression.
func parseSpecExpr(s string) (ast.Expr, error) {
	r, err := rewriteImplies(s)
	if err != nil {
		return nil, err
	}
	e, err := parser.ParseExpr(r)
	if err != nil {
		return nil, fmt.Errorf("cannot parse %q (rewritten %q): %v", s, r, err)
	}
	return e, nil
}

// splitTop splits s at top-level occurrences of sep (outside brackets and
// literals).
func splitTop(s string, sep byte) []string {
	var out []string
	depth := 0
	start := 0
	for i := 0; i < len(s); i++ {
		c := s[i]
		switch c {
		case '"':
			i = skipString(s, i)
		case '\'':
			i = skipRune(s, i)
		case '`':
			for i++; i < len(s) && s[i] != '`'; i++ {
			}
		case '(', '[', '{':
			depth++
		case ')', ']', '}':
			depth--
		default:
			if c == sep && depth == 0 {
				out = append(out, strings.TrimSpace(s[start:i]))
				start = i + 1
			}
		}
	}
	out = append(out, strings.TrimSpace(s[start:]))
	return out
}

func indexTop(s string, sep byte) int {
	depth := 0
	for i := 0; i < len(s); i++ {
		c := s[i]
		switch c {
		case '"':
			i = skipString(s, i)
		case '\'':
			i = skipRune(s, i)
		case '(', '[', '{':
			depth++
		case ')', ']', '}':
			depth--
		default:
			if c == sep && depth == 0 {
				// not part of ==, !=, <=, >=, :=, ==>
				if sep == '=' {
					if i+1 < len(s) && s[i+1] == '=' {
						i++
						continue
					}
					if i > 0 && strings.IndexByte("=!<>:", s[i-1]) >= 0 {
						continue
					}
				}
				return i
			}
		}
	}
	return -1
}

func skipString(s string, i int) int {
	for i++; i < len(s); i++ {
		if s[i] == '\\' {
			i++
		} else if s[i] == '"' {
			return i
		}
	}
	return i
}

func skipRune(s string, i int) int {
	for i++; i < len(s); i++ {
		if s[i] == '\\' {
			i++
		} else if s[i] == '\'' {
			return i
		}
	}
	return i
}

// rewriteImplies turns "A ==> B" into implies(A, B) and "A <==> B" into
// iff(A, B) at every nesting level.  ==> is right associative and binds
// weaker than ||; <==> binds weaker than ==>.
func rewriteImplies(s string) (string, error) {
	// first rewrite inside every bracketed group
	var b strings.Builder
	for i := 0; i < len(s); i++ {
		c := s[i]
		switch c {
		case '"':
			j := skipString(s, i)
			b.WriteString(s[i:min(j+1, len(s))])
			i = j
		case '\'':
			j := skipRune(s, i)
			b.WriteString(s[i:min(j+1, len(s))])
			i = j
		case '(', '[', '{':
			j := matchBracket(s, i)
			if j < 0 {
				return "", fmt.Errorf("unbalanced bracket in %q", s)
			}
			inner := s[i+1 : j]
			parts := splitTop(inner, ',')
			for k, p := range parts {
				r, err := rewriteImplies(p)
				if err != nil {
					return "", err
				}
				parts[k] = r
			}
			b.WriteByte(c)
			b.WriteString(strings.Join(parts, ", "))
			b.WriteByte(s[j])
			i = j
		default:
			b.WriteByte(c)
		}
	}
	t := b.String()
	// now t has ==> only at top level
	if i := indexTopStr(t, "<==>"); i >= 0 {
		l, err := rewriteImplies(t[:i])
		if err != nil {
			return "", err
		}
		r, err := rewriteImplies(t[i+4:])
		if err != nil {
			return "", err
		}
		return "iff(" + strings.TrimSpace(l) + ", " + strings.TrimSpace(r) + ")", nil
	}
	if i := indexTopStr(t, "==>"); i >= 0 {
		r, err := rewriteImplies(t[i+3:])
		if err != nil {
			return "", err
		}
		return "implies(" + strings.TrimSpace(t[:i]) + ", " + strings.TrimSpace(r) + ")", nil
	}
	return t, nil
}

func indexTopStr(s, sub string) int {
	depth := 0
	for i := 0; i < len(s); i++ {
		c := s[i]
		switch c {
		case '"':
			i = skipString(s, i)
		case '\'':
			i = skipRune(s, i)
		case '(', '[', '{':
			depth++
		case ')', ']', '}':
			depth--
		default:
			if depth == 0 && strings.HasPrefix(s[i:], sub) {
				if sub == "==>" && i > 0 && s[i-1] == '<' {
					continue
				}
				return i
			}
		}
	}
	return -1
}

func matchBracket(s string, i int) int {
	depth := 0
	for ; i < len(s); i++ {
		switch s[i] {
		case '"':
			i = skipString(s, i)
		case '\'':
			i = skipRune(s, i)
		case '(', '[', '{':
			depth++
		case ')', ']', '}':
			depth--
			if depth == 0 {
				return i
			}
		}
	}
	return -1
}

// rawTexts: the source text of every clause (and of the spec functions, which
// clauses may call), for cheap "does this contract mention X" questions.
func (c *Contract) rawTexts() []string {
	var out []string
	for _, cl := range c.Clauses {
		out = append(out, cl.Text)
	}
	if c.allSpecFuncs != nil {
		out = append(out, c.allSpecFuncs...)
	}
	return out
}

func (c *Contract) mentions(name string) bool {
	for _, t := range c.rawTexts() {
		if strings.Contains(t, name+"(") {
			return true
		}
	}
	return false
}

// ticks reports whether this contract owns the ghost counter name.
func (c *Contract) ticks(name string) bool {
	for _, cl := range c.Clauses {
		if cl.Kind == "at" {
			for _, t := range tickNames(cl.Text) {
				if t == name {
					return true
				}
			}
		}
	}
	return false
}
