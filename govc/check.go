package main

// "govc check <property>" — the command registered in MANIFEST.json.
//
// It regenerates every verification condition from /repo's current working
// tree, discharges them, writes evidence/<id>.json and prints one VIOLATION
// line per failed named obligation that carries the property (or a
// KNOWN-FINDING line when the failure is listed in known_findings.json).

import (
	"encoding/json"
	"flag"
	"fmt"
	"os"
	"os/exec"
	"path/filepath"
	"sort"
	"strconv"
	"strings"
	"time"
)

type knownFinding struct {
	Property   string `json:"property"`
	Obligation string `json:"obligation"`
	What       string `json:"what"`
	Witness    string `json:"witness,omitempty"`
}

type knownFile struct {
	Findings []knownFinding    `json:"findings"`
	Fixed    []json.RawMessage `json:"fixed"`
}

type baselineFile struct {
	// property -> function -> number of named obligations on the unchanged tree
	Properties map[string]map[string]int `json:"properties"`
	// function -> its parameters, results and locals ("name|type") in
	// declaration order on the unchanged tree: lets a contract survive a pure
	// renaming of locals (see Engine.renamesFor)
	Locals map[string][]string `json:"locals,omitempty"`
}

type oblRecord struct {
	Name      string   `json:"name"`
	Kind      string   `json:"kind"`
	Function  string   `json:"function"`
	Pos       string   `json:"pos"`
	Tags      []string `json:"properties"`
	Status    string   `json:"status"`
	Solver    string   `json:"solver"`
	TimeS     float64  `json:"time_s"`
	Bytes     int      `json:"vc_bytes"`
	Instances int      `json:"instances"`
	Text      string   `json:"clause"`
}

func verifDir() string {
	if d := os.Getenv("VERIF_DIR"); d != "" {
		return d
	}
	exe, err := os.Executable()
	if err == nil {
		d := filepath.Dir(filepath.Dir(exe))
		if _, err := os.Stat(filepath.Join(d, "MANIFEST.json")); err == nil {
			return d
		}
	}
	return "/verif"
}

func cmdCheck(args []string) {
	fs := flag.NewFlagSet("check", flag.ExitOnError)
	repo := fs.String("repo", "/repo", "repository")
	tier := fs.String("tier", "", "quick|thorough")
	baseline := fs.Bool("write-baseline", false, "record obligation counts (unchanged tree only)")
	fs.Parse(args)
	rest := fs.Args()
	if len(rest) < 1 {
		fmt.Fprintln(os.Stderr, "usage: govc check [-tier quick|thorough] <property>")
		os.Exit(2)
	}
	prop := rest[0]
	if *tier == "" {
		*tier = os.Getenv("VERIF_TIER")
	}
	if *tier != "thorough" {
		*tier = "quick"
	}
	seed := 0
	if s := os.Getenv("VERIF_SEED"); s != "" {
		seed, _ = strconv.Atoi(s)
	}
	vdir := verifDir()
	start := time.Now()
	budget := 15
	if *tier == "thorough" {
		budget = 60
	}
	e, err := loadEngine(*repo, filepath.Join(*repo, "contracts_verif.go"))
	if err != nil {
		// the tree does not load (does not compile, or the contract file is
		// broken): nothing can be decided
		fmt.Printf("ERROR property=%s cannot load %s: %v\n", prop, *repo, err)
		os.Exit(2)
	}
	lemmas := e.translateFacts()
	keys := e.functionsFor(prop)
	var obls []*Obligation
	var limits []string
	var bodyFallback []string
	nFuncs := 0
	perFunc := map[string]int{}
	var underContract []map[string]interface{}
	for _, k := range keys {
		c := e.verifyKey(k)
		con := e.spec.Contracts[k]
		fk := k
		if strings.HasPrefix(k, "body:") {
			fk = strings.TrimPrefix(k, "body:")
			con = e.spec.Bodies[fk]
		}
		rec := map[string]interface{}{"function": k, "clauses": len(con.Clauses), "pos": e.posStr(e.funcs[fk].Pos())}
		if c.limit != "" {
			if strings.HasPrefix(k, "body:") {
				// A body-only contract exports nothing: the callers of this
				// function use its assumed contract whether or not the body
				// can be checked.  When the body leaves the supported subset
				// the function simply falls back to what it was before the
				// body contract existed - assumed - and that is reported as an
				// unchecked assumption, not as a violation.
				bodyFallback = append(bodyFallback, fmt.Sprintf("%s: %s", fk, c.limit))
				rec["engine_limit"] = c.limit
				rec["fallback"] = "assumed"
				underContract = append(underContract, rec)
				continue
			}
			limits = append(limits, fmt.Sprintf("%s: %s", fk, c.limit))
			rec["engine_limit"] = c.limit
			underContract = append(underContract, rec)
			continue
		}
		nFuncs++
		for _, o := range c.obls {
			if hasTag(o.Tags, prop) {
				obls = append(obls, o)
			}
		}
		underContract = append(underContract, rec)
	}
	for _, l := range lemmas {
		if hasTag(l.Tags, prop) {
			obls = append(obls, l)
		}
	}
	workdir, _ := os.MkdirTemp("", "govc-"+prop+"-")
	defer os.RemoveAll(workdir)
	e.dischargeAll(obls, workdir, budget, 16)

	groups := groupObls(obls)
	for _, g := range groups {
		perFunc[g.obls[0].Fn]++
	}
	// baseline bookkeeping
	basePath := filepath.Join(vdir, "expected_obligations.json")
	var base baselineFile
	if b, err := os.ReadFile(basePath); err == nil {
		json.Unmarshal(b, &base)
	}
	if base.Properties == nil {
		base.Properties = map[string]map[string]int{}
	}
	if *baseline {
		base.Properties[prop] = perFunc
		if base.Locals == nil {
			base.Locals = map[string][]string{}
		}
		for _, k := range keys {
			if fd, ok := e.funcs[k]; ok {
				base.Locals[k] = e.localsOf(fd)
			}
		}
		b, _ := json.MarshalIndent(base, "", " ")
		os.WriteFile(basePath, append(b, '\n'), 0o644)
	}

	// known findings
	var known knownFile
	if b, err := os.ReadFile(filepath.Join(vdir, "known_findings.json")); err == nil {
		json.Unmarshal(b, &known)
	}
	isKnown := func(name string) *knownFinding {
		for i := range known.Findings {
			k := &known.Findings[i]
			if k.Property == prop && k.Obligation == name {
				return k
			}
		}
		return nil
	}

	discharged := 0
	violations := 0
	knownMatched := 0
	var records []oblRecord
	solverTime := map[string]float64{}
	bySolver := map[string]int{}
	replayDir := filepath.Join(vdir, "replays", prop)
	var vlines []string
	for _, g := range groups {
		o0 := g.obls[0]
		rec := oblRecord{Name: g.name, Kind: o0.Kind, Function: o0.Fn, Pos: o0.Pos, Tags: o0.Tags, Status: g.status, Instances: len(g.obls), Text: o0.Text}
		for _, o := range g.obls {
			rec.TimeS += o.TimeS
			if o.Bytes > rec.Bytes {
				rec.Bytes = o.Bytes
			}
			solverTime[o.Solver] += o.TimeS
			bySolver[o.Solver]++
			if o.Status == "proved" {
				rec.Solver = o.Solver
			}
		}
		if g.status == "proved" {
			discharged++
		} else {
			var bad *Obligation
			for _, o := range g.obls {
				if o.Status != "proved" {
					bad = o
					if o.Status == "failed" {
						break
					}
				}
			}
			rec.Solver = bad.Solver
			if k := isKnown(g.name); k != nil {
				knownMatched++
				fmt.Printf("KNOWN-FINDING: property=%s %s %s\n", prop, g.name, k.What)
			} else {
				violations++
				os.MkdirAll(replayDir, 0o755)
				path, confirmed := e.replay(bad, prop, replayDir, *repo)
				line := fmt.Sprintf("VIOLATION property=%s replay=%s", prop, path)
				if !confirmed {
					line += " no-failing-input-found"
				}
				vlines = append(vlines, line)
				fmt.Printf("FAILED %s [%s] %s: %s (%s by %s)\n", g.name, o0.Kind, o0.Pos, o0.Text, bad.Status, bad.Solver)
			}
		}
		records = append(records, rec)
	}
	// findings recorded from the audit of the unchanged tree that no obligation
	// covers (each has a failing test on the real code under /verif/audit): they
	// are listed on every run, they neither hide nor cause a violation
	auditListed := 0
	for i := range known.Findings {
		k := &known.Findings[i]
		if k.Property == prop && strings.HasPrefix(k.Obligation, "audit:") {
			auditListed++
			fmt.Printf("KNOWN-FINDING: property=%s %s %s\n", prop, k.Obligation, k.What)
		}
	}
	_ = auditListed
	// vacuity guards
	var notes []string
	if exp, ok := base.Properties[prop]; ok && !*baseline {
		for fn, n := range exp {
			got := perFunc[fn]
			limited := false
			for _, l := range limits {
				if strings.HasPrefix(l, fn+":") {
					limited = true
				}
			}
			for _, l := range bodyFallback {
				if strings.HasPrefix(l, fn+":") {
					limited = true
				}
			}
			if got*2 < n && !limited {
				violations++
				os.MkdirAll(replayDir, 0o755)
				path := filepath.Join(replayDir, "vacuity-"+sanitize(fn)+".json")
				writeJSON(path, map[string]interface{}{"property": prop, "obligation": fn + ".vacuity", "what": fmt.Sprintf("only %d of the %d obligations recorded for %s were generated", got, n, fn)})
				vlines = append(vlines, fmt.Sprintf("VIOLATION property=%s replay=%s no-failing-input-found", prop, path))
				fmt.Printf("FAILED %s.vacuity: %d obligations generated, %d expected\n", fn, got, n)
			}
		}
	}
	level := "proof"
	for _, l := range bodyFallback {
		fmt.Printf("ASSUMED property=%s function=%s (body-only contract not applicable to this tree; the function stays assumed)\n", prop, l)
		notes = append(notes, "assumed (body-only contract outside the supported subset on this tree, nothing exported to callers): "+l)
	}
	for _, l := range limits {
		fmt.Printf("UNDECIDED property=%s function=%s\n", prop, l)
		notes = append(notes, "engine-limit: "+l)
		level = "other"
		// Obligations that were discharged for this function on the recorded
		// baseline can no longer even be generated: the contract does not fit
		// the code any more (or the code left the supported subset).  They are
		// reported - an obligation that passed on the unchanged tree and now
		// fails - with the reason; there is no counterexample to replay.
		fn := l
		if i := strings.Index(l, ":"); i > 0 {
			fn = l[:i]
		}
		if n := base.Properties[prop][fn]; n > 0 && !*baseline {
			violations++
			os.MkdirAll(replayDir, 0o755)
			path := filepath.Join(replayDir, "inapplicable-"+sanitize(fn)+".json")
			writeJSON(path, map[string]interface{}{"property": prop, "obligation": fn + ".contract", "status": "undecided",
				"what": fmt.Sprintf("the %d obligations recorded for %s can no longer be generated: %s", n, fn, l),
				"note": "no counterexample exists for an obligation that cannot be generated; the verifier output is the reason above"})
			vlines = append(vlines, fmt.Sprintf("VIOLATION property=%s replay=%s no-failing-input-found", prop, path))
			fmt.Printf("FAILED %s.contract: %s\n", fn, l)
		}
	}
	if len(groups) == 0 {
		level = "other"
		notes = append(notes, "no obligations were generated")
	}
	for _, l := range vlines {
		fmt.Println(l)
	}

	// evidence
	var samples []interface{}
	for i, r := range records {
		if i%((len(records)/6)+1) == 0 || r.Status != "proved" {
			samples = append(samples, r)
		}
		if len(samples) >= 12 {
			break
		}
	}
	var slist []string
	for s, n := range bySolver {
		name := s
		if name == "" {
			name = "none"
		}
		slist = append(slist, fmt.Sprintf("%s: %d instances, %.1fs", name, n, solverTime[s]))
	}
	sort.Strings(slist)
	cov := map[string]interface{}{
		"obligations":              len(groups),
		"discharged":               discharged,
		"obligation_instances":     len(obls),
		"checker_cmd":              fmt.Sprintf("bin/govc check -tier %s %s  (VCs from %s; back ends z3 5.1.0, cvc5 1.0, z3 4.8.12; %ds per obligation)", *tier, prop, *repo, budget),
		"trusted_base":             e.trustedBase(),
		"functions_under_contract": underContract,
		"obligation_records":       records,
		"solvers":                  slist,
		"samples":                  samples,
		"known_findings_matched":   knownMatched,
		"known_findings_audit":     auditListed,
		"engine_limits":            limits,
		"notes":                    notes,
		"explanation":              "every obligation (postcondition, call precondition, loop invariant init/step, variant, frame, safety at each index/slice/dereference/assertion, lemma) generated from the current source of the functions under contract that carry this property; an obligation counts as discharged only when a solver answered unsat",
	}
	if *tier == "thorough" && !*baseline && os.Getenv("GOVC_NO_SELFTEST") == "" {
		// must-detect self-test of the checker: every seeded property-breaking
		// change recorded for this property is applied to a scratch copy of the
		// tree under check and has to make the quick check fail.  The outcome
		// is evidence about the checker; it does not change the verdict on the tree.
		cov["selftest_seeded_changes"] = selfTest(prop, *repo, vdir)
	}
	ev := map[string]interface{}{
		"property_id": prop,
		"tier":        *tier,
		"seed":        seed,
		"level":       level,
		"coverage":    cov,
		"assumptions": e.assumptions(),
		"wall_s":      time.Since(start).Seconds(),
		"violations":  violations,
	}
	os.MkdirAll(filepath.Join(vdir, "evidence"), 0o755)
	writeJSON(filepath.Join(vdir, "evidence", prop+".json"), ev)
	fmt.Printf("%s: %d named obligations (%d instances) over %d functions, %d discharged, %d violations, %d known findings, %.1fs\n",
		prop, len(groups), len(obls), nFuncs, discharged, violations, knownMatched, time.Since(start).Seconds())
	if violations > 0 {
		os.RemoveAll(workdir)
		os.Exit(1)
	}
}

func sanitize(s string) string {
	return strings.Map(func(r rune) rune {
		if r >= 'a' && r <= 'z' || r >= 'A' && r <= 'Z' || r >= '0' && r <= '9' || r == '_' || r == '-' || r == '.' {
			return r
		}
		return '_'
	}, s)
}

func writeJSON(path string, v interface{}) {
	b, err := json.MarshalIndent(v, "", " ")
	if err != nil {
		fmt.Fprintln(os.Stderr, "govc: cannot encode", path, err)
		return
	}
	os.WriteFile(path, append(b, '\n'), 0o644)
}

// trustedBase lists every assumed contract and axiom in force.
func (e *Engine) trustedBase() []string {
	var out []string
	for _, k := range e.spec.Order {
		c := e.spec.Contracts[k]
		if c.Assumed {
			out = append(out, "assumed contract: "+c.Header)
		}
	}
	for _, k := range e.spec.Order {
		c := e.spec.Contracts[k]
		if !c.Assumed && c.Pure {
			out = append(out, "stability (pure) of verified function: "+c.Header+" - its result is treated as a function of its arguments at call sites")
		}
	}
	for _, f := range e.spec.Facts {
		if f.Kind == "axiom" {
			out = append(out, "axiom "+f.Name+": "+f.Text)
		}
	}
	var synth []string
	for k, c := range e.spec.Contracts {
		if c.Synth {
			synth = append(synth, k)
		}
	}
	sort.Strings(synth)
	for _, k := range synth {
		out = append(out, "uninterpreted pure library function (no contract in the contract file): "+k)
	}
	if e.spec.WfNonNil {
		out = append(out, "wf nonnil-elements: the pointer slices held in the parser's structures ([]*Option, []*Group, []*Command, []*Arg) contain no nil element, map entries of the lookup tables under a present key are non-nil, and the embedded *Group of a Command / *Command of a Parser is never nil (assumed at reads, in code and in specifications)")
	}
	out = append(out,
		"govc itself: Go-subset semantics, VC generation, cone-of-influence filter (drops hypotheses only)",
		"SMT solvers: an unsat answer from any one of z3 5.1.0 / cvc5 1.0 / z3 4.8.12 is believed",
		"recursive spec functions are well-founded (their definitions are used one unfold() instance at a time); those that read the heap (nsName, envName over the parent chain of groups) read only fields that are fixed once the parser is built (parent, Namespace, EnvNamespace, NamespaceDelimiter); catChunks reads trace entries below ncalls, which are never rewritten")
	return out
}

func (e *Engine) assumptions() []string {
	return []string{
		"64-bit int/uint arithmetic is treated as mathematical (no overflow obligation); narrower types and conversions get range obligations",
		"slices and maps are modelled as values: a function that writes through a slice/map parameter or through a map alias is rejected as engine-limit, append is functional (no aliasing through spare capacity), cap() is not modelled",
		"strings are byte sequences (SMT strings, one character per byte); bytes read are in 0..255; the ordering of strings (<, <=) is an uninterpreted total relation",
		"borrowed storage: the one place where a slice is only lent (bufio.Reader.ReadLine's line, clause `invalidates` + transient()) is modelled by forgetting, at the next ReadLine, every local []byte that may still share it; borrowed slices stored in struct fields or handed to callees are not tracked",
		"allocation: a new object's reference lies above a per-type frontier (an upper bound of all references handed out so far on the path, unknown but monotone at loop heads and joins); allocated(p) in a precondition is taken as a truth of the language (every reference a caller can pass exists already) and is not re-checked at calls",
		"string(append(a, b...)) == string(a) + string(b) for []byte is built in",
		"pointers to non-package types (*string, ...) have immutable pointees",
		"user callbacks and interface methods (Execute, handlers, Unmarshaler, ...) do not modify the parser's own data structures; their results are unconstrained",
		"build configuration GOOS=linux, tags verif: optstyle_windows.go and termsize_windows.go are not part of the verified text",
		"floating point (one use, the suggestion threshold of estimateCommand) is real arithmetic: exact for operands below 2^24; x/0 is an infinity, 0/0 a NaN for which every ordered comparison is false",
		"iterator methods (eachGroup, eachCommand, eachOption, eachActiveGroup) called with a closure are loops over a ghost sequence that is a function of the receiver; what the sequence holds is assumed (axioms eg_nonempty, eag_elem, chain_*); the bodies of eachGroup, eachCommand, eachActiveGroup and eachOption are verified against the shape of their walk (own items to the callback once each, one recursion per child / into the active subcommand), and the link between a body's callback calls and the ghost sequence is not mechanised",
		"range over a Go map runs over an arbitrary ghost key order (distinct keys, all of the domain); entries of the parser's tables under a present key are assumed non-nil (wf nonnil-elements)",
		"package-level functions of strings, strconv, unicode, unicode/utf8, math, bytes without an assumed contract are uninterpreted pure functions of their arguments",
		"the tag accessors multiTag.Get / GetMany are assumed pure functions for their callers; their bodies are verified separately (body-only contracts) against the cache, and multiTag.cached is assumed to return one and the same non-nil map with a non-empty value list under every key",
		"package functions without a contract that are loop-free, non-recursive and take no address of a local are executed inline at their call sites; any other call of a function without contract is an engine limit",
		"termination is proved for loops with a decreases clause only; recursion (convert, convertToString, groupByName, the man-page walk, scanStruct) is not shown to terminate",
		"solver budgets are CPU seconds per obligation and back end; an obligation counts as discharged only on an unsat answer; cover obligations (vacuity guards) that no solver decides within 3 s are recorded as undecided-cover and not counted as refuted",
	}
}

// selfTest applies each seeded change of the property to a scratch copy of the
// repository (outside /repo and /verif, removed afterwards) and runs the quick
// check on it.
func selfTest(prop, repo, vdir string) []map[string]interface{} {
	var out []map[string]interface{}
	dirs, _ := filepath.Glob(filepath.Join(vdir, "seeded", prop+"-*"))
	sort.Strings(dirs)
	self, err := os.Executable()
	if err != nil {
		return out
	}
	for _, d := range dirs {
		patch := filepath.Join(d, "patch.diff")
		if _, err := os.Stat(patch); err != nil {
			continue
		}
		rec := map[string]interface{}{"id": filepath.Base(d)}
		work, err := os.MkdirTemp("", "govc-selftest-")
		if err != nil {
			continue
		}
		func() {
			defer os.RemoveAll(work)
			wt := filepath.Join(work, "wt")
			sv := filepath.Join(work, "v")
			os.MkdirAll(sv, 0o755)
			if b, err := exec.Command("rsync", "-a", "--exclude", ".git", repo+"/", wt+"/").CombinedOutput(); err != nil {
				rec["skipped"] = "copy failed: " + firstLines(string(b), 1)
				return
			}
			ap := exec.Command("git", "apply", patch)
			ap.Dir = wt
			if b, err := ap.CombinedOutput(); err != nil {
				rec["skipped"] = "the change does not apply to the tree under check: " + firstLines(string(b), 1)
				return
			}
			for _, f := range []string{"known_findings.json", "expected_obligations.json", "MANIFEST.json"} {
				if b, err := os.ReadFile(filepath.Join(vdir, f)); err == nil {
					os.WriteFile(filepath.Join(sv, f), b, 0o644)
				}
			}
			cmd := exec.Command(self, "check", "-repo", wt, "-tier", "quick", prop)
			cmd.Env = append(os.Environ(), "VERIF_DIR="+sv, "GOVC_NO_SELFTEST=1")
			b, err := cmd.CombinedOutput()
			detected := false
			if ee, ok := err.(*exec.ExitError); ok && ee.ExitCode() == 1 && strings.Contains(string(b), "VIOLATION property="+prop) {
				detected = true
			}
			rec["detected"] = detected
			var obl []string
			for _, l := range strings.Split(string(b), "\n") {
				if strings.HasPrefix(l, "FAILED ") {
					f := strings.Fields(l)
					if len(f) > 1 && len(obl) < 6 {
						obl = append(obl, f[1])
					}
				}
			}
			rec["failed_obligations"] = obl
		}()
		out = append(out, rec)
		if v, ok := rec["detected"].(bool); ok && !v {
			fmt.Printf("SELFTEST property=%s seeded change %s is NOT detected by this check\n", prop, rec["id"])
		}
	}
	return out
}
