package main

import (
	"encoding/json"
	"flag"
	"fmt"
	"go/types"
	"os"
	"path/filepath"
	"sort"
	"strings"
	"time"

	"golang.org/x/tools/go/packages"
)

func loadEngine(repo, specPath string) (*Engine, error) {
	env := append(os.Environ(), "GOFLAGS=-mod=mod", "GOPROXY=off", "GOSUMDB=off", "GOTOOLCHAIN=local", "GOOS=linux", "GOARCH=amd64", "CGO_ENABLED=0")
	cfg := &packages.Config{
		Mode:       packages.NeedName | packages.NeedFiles | packages.NeedSyntax | packages.NeedTypes | packages.NeedTypesInfo | packages.NeedImports | packages.NeedDeps,
		Dir:        repo,
		BuildFlags: []string{"-tags=verif"},
		Env:        env,
	}
	pkgs, err := packages.Load(cfg, ".")
	if err != nil {
		return nil, err
	}
	if len(pkgs) != 1 {
		return nil, fmt.Errorf("expected one package, got %d", len(pkgs))
	}
	p := pkgs[0]
	if len(p.Errors) > 0 {
		return nil, fmt.Errorf("package errors: %v", p.Errors)
	}
	sf, err := parseSpecFile(specPath)
	if err != nil {
		return nil, fmt.Errorf("contract file: %v", err)
	}
	e := &Engine{pkg: p, fset: p.Fset, info: p.TypesInfo, spec: sf, sorts: newSorts(),
		ufs: map[string]string{}, specDefs: map[string]string{}, specSig: map[string]*specSig{}, tagOf: map[string]int{}}
	e.index()
	e.buildModsets()
	// recorded local names of the unchanged tree (rename tolerance)
	if b, err := os.ReadFile(filepath.Join(verifDir(), "expected_obligations.json")); err == nil {
		var base baselineFile
		if json.Unmarshal(b, &base) == nil {
			e.baseLocals = base.Locals
		}
	}
	return e, nil
}

func hasTag(tags []string, p string) bool {
	for _, t := range tags {
		if t == p {
			return true
		}
	}
	return false
}

// functionsFor lists the functions whose contract carries property p.
func (e *Engine) functionsFor(p string) []string {
	var out []string
	for _, k := range e.spec.Order {
		con := e.spec.Contracts[k]
		if con.Assumed {
			continue
		}
		if _, ok := e.funcs[k]; !ok {
			continue
		}
		rel := hasTag(con.Props, p)
		for _, cl := range con.Clauses {
			if hasTag(cl.Tags, p) {
				rel = true
			}
		}
		if rel {
			out = append(out, k)
		}
	}
	for _, k := range e.spec.BodyOrder {
		con := e.spec.Bodies[k]
		if _, ok := e.funcs[k]; !ok {
			continue
		}
		rel := hasTag(con.Props, p)
		for _, cl := range con.Clauses {
			if hasTag(cl.Tags, p) {
				rel = true
			}
		}
		if rel {
			out = append(out, "body:"+k)
		}
	}
	return out
}

func main() {
	if len(os.Args) < 2 {
		fmt.Fprintln(os.Stderr, "usage: govc verify|check ...")
		os.Exit(2)
	}
	switch os.Args[1] {
	case "verify":
		cmdVerify(os.Args[2:])
	case "check":
		cmdCheck(os.Args[2:])
	case "replay":
		cmdReplay(os.Args[2:])
	case "sweep":
		cmdSweep(os.Args[2:])
	default:
		fmt.Fprintln(os.Stderr, "unknown subcommand", os.Args[1])
		os.Exit(2)
	}
}

func cmdVerify(args []string) {
	fs := flag.NewFlagSet("verify", flag.ExitOnError)
	repo := fs.String("repo", "/repo", "repository")
	spec := fs.String("spec", "", "contract file (default <repo>/contracts_verif.go)")
	funcs := fs.String("funcs", "", "comma-separated function keys")
	prop := fs.String("prop", "", "property id")
	budget := fs.Int("t", 10, "per-obligation solver budget (s)")
	verbose := fs.Bool("v", false, "verbose")
	keep := fs.String("keep", "", "keep queries in this directory")
	all := fs.Bool("all", false, "every function with a contract")
	fs.Parse(args)
	if *spec == "" {
		*spec = filepath.Join(*repo, "contracts_verif.go")
	}
	start := time.Now()
	e, err := loadEngine(*repo, *spec)
	if err != nil {
		fmt.Fprintln(os.Stderr, "govc:", err)
		os.Exit(2)
	}
	var keys []string
	if *funcs != "" {
		keys = strings.Split(*funcs, ",")
	} else if *prop != "" {
		keys = e.functionsFor(*prop)
	} else if *all {
		for _, k := range e.spec.Order {
			if _, ok := e.funcs[k]; ok && !e.spec.Contracts[k].Assumed {
				keys = append(keys, k)
			}
		}
		for _, k := range e.spec.BodyOrder {
			if _, ok := e.funcs[k]; ok {
				keys = append(keys, "body:"+k)
			}
		}
	}
	lemmas := e.translateFacts()
	var obls []*Obligation
	var ctxs []*FuncCtx
	for _, k := range keys {
		c := e.verifyKey(k)
		ctxs = append(ctxs, c)
		if c.limit != "" {
			fmt.Printf("ENGINE-LIMIT %s: %s\n", k, c.limit)
			continue
		}
		obls = append(obls, c.obls...)
	}
	if *funcs == "" {
		for _, l := range lemmas {
			if *prop == "" || hasTag(l.Tags, *prop) {
				obls = append(obls, l)
			}
		}
	}
	workdir := *keep
	if workdir == "" {
		workdir, _ = os.MkdirTemp("", "govc")
		defer os.RemoveAll(workdir)
	} else {
		os.MkdirAll(workdir, 0o755)
	}
	genT := time.Since(start)
	e.dischargeAll(obls, workdir, *budget, 16)
	printReport(obls, *verbose)
	fmt.Printf("generation %.1fs, total %.1fs\n", genT.Seconds(), time.Since(start).Seconds())
}

type group struct {
	name   string
	obls   []*Obligation
	status string
}

// groupObls merges the per-path instances of one named obligation.
func groupObls(obls []*Obligation) []*group {
	idx := map[string]*group{}
	var order []*group
	for _, o := range obls {
		g := idx[o.Name]
		if g == nil {
			g = &group{name: o.Name}
			idx[o.Name] = g
			order = append(order, g)
		}
		g.obls = append(g.obls, o)
	}
	for _, g := range order {
		g.status = "proved"
		for _, o := range g.obls {
			if o.Status != "proved" {
				if g.status == "proved" || o.Status == "failed" {
					g.status = o.Status
				}
			}
		}
	}
	return order
}

func printReport(obls []*Obligation, verbose bool) {
	gs := groupObls(obls)
	proved := 0
	bySolver := map[string]int{}
	for _, g := range gs {
		if g.status == "proved" {
			proved++
		}
		for _, o := range g.obls {
			bySolver[o.Solver]++
		}
		if g.status != "proved" || verbose {
			o0 := g.obls[0]
			fmt.Printf("%-8s %-60s %s [%s] %d instance(s)  %s\n", strings.ToUpper(g.status), g.name, o0.Pos, strings.Join(o0.Tags, ","), len(g.obls), o0.Text)
			if g.status != "proved" {
				for _, o := range g.obls {
					if o.Status != "proved" {
						fmt.Printf("         instance: %s by %s in %.2fs (%d bytes)\n", o.Status, o.Solver, o.TimeS, o.Bytes)
						if o.Model != "" {
							fmt.Println(indent(summariseModel(o.Model), "           "))
						}
						break
					}
				}
			}
		}
	}
	// slow obligations are unstable ones: list them
	for _, g := range gs {
		for _, o := range g.obls {
			if o.TimeS > 2.0 && o.Status == "proved" {
				fmt.Printf("SLOW     %-60s %.1fs by %s\n", g.name, o.TimeS, o.Solver)
				break
			}
		}
	}
	var ss []string
	for s, n := range bySolver {
		ss = append(ss, fmt.Sprintf("%s=%d", s, n))
	}
	sort.Strings(ss)
	fmt.Printf("obligations: %d named (%d instances), proved %d; by solver: %s\n", len(gs), len(obls), proved, strings.Join(ss, " "))
}

func indent(s, p string) string {
	return p + strings.ReplaceAll(s, "\n", "\n"+p)
}

// summariseModel extracts the values of parameters (p_*) from a model.
func summariseModel(m string) string {
	var out []string
	lines := strings.Split(m, "\n")
	for i := 0; i < len(lines); i++ {
		l := strings.TrimSpace(lines[i])
		if strings.HasPrefix(l, "(define-fun p_") {
			s := l
			// value may be on the following line(s)
			for j := i + 1; j < len(lines) && j < i+6 && !strings.HasPrefix(strings.TrimSpace(lines[j]), "(define-fun"); j++ {
				s += " " + strings.TrimSpace(lines[j])
			}
			out = append(out, s)
		}
	}
	if len(out) > 12 {
		out = out[:12]
	}
	return strings.Join(out, "\n")
}

var _ = types.Typ

// cmdSweep: annotation-free safety sweep.  Every function of the package that
// has no verified contract is run with an empty contract (no preconditions):
// the index / slice / nil / type-assertion / division / nil-map obligations are
// generated and discharged.  Functions the engine cannot process are listed.
// A failed obligation here is a lead to look at, not a verdict: without a
// precondition the function is checked for ALL argument values, including ones
// its callers never pass.
func cmdSweep(args []string) {
	fs := flag.NewFlagSet("sweep", flag.ExitOnError)
	repo := fs.String("repo", "/repo", "repository")
	budget := fs.Int("t", 5, "per-obligation budget (s)")
	fs.Parse(args)
	e, err := loadEngine(*repo, filepath.Join(*repo, "contracts_verif.go"))
	if err != nil {
		fmt.Fprintln(os.Stderr, "govc:", err)
		os.Exit(2)
	}
	e.translateFacts()
	var obls []*Obligation
	nf, nlim := 0, 0
	for _, k := range e.funcKeys() {
		if con := e.spec.Contracts[k]; con != nil && !con.Assumed {
			continue
		}
		// give the function an empty verified contract for this run
		saved := e.spec.Contracts[k]
		hdr := "func " + k + "()"
		con := &Contract{Key: k, Header: hdr, Decl: e.funcs[k], Sweep: true}
		e.spec.Contracts[k] = con
		c := e.verifyKey(k)
		if saved != nil {
			e.spec.Contracts[k] = saved
		} else {
			delete(e.spec.Contracts, k)
		}
		if c.limit != "" {
			nlim++
			fmt.Printf("LIMIT    %-50s %s\n", k, c.limit)
			continue
		}
		nf++
		for _, o := range c.obls {
			if o.Kind == "safe" || o.Kind == "ovf" || o.Kind == "pre" {
				obls = append(obls, o)
			}
		}
	}
	work, _ := os.MkdirTemp("", "govc-sweep-")
	defer os.RemoveAll(work)
	e.dischargeAll(obls, work, *budget, 16)
	bad := 0
	for _, g := range groupObls(obls) {
		if g.status != "proved" {
			bad++
			o := g.obls[0]
			fmt.Printf("%-8s %-60s %s  %s\n", strings.ToUpper(g.status), g.name, o.Pos, o.Text)
		}
	}
	fmt.Printf("sweep: %d functions processed, %d outside the subset, %d safety obligations, %d not discharged\n", nf, nlim, len(groupObls(obls)), bad)
}
