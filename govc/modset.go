package main

// May-modify analysis: which heap field arrays (and which local variables) a
// piece of code can write, transitively through calls of package functions.
// Calls of func values and interface methods contribute nothing (trusted:
// user callbacks do not mutate the parser's own data).

import (
	"go/ast"
	"go/token"
	"go/types"
	"strings"
)

type modset struct {
	fields map[string]types.Type
	vars   map[*types.Var]bool
	whole  map[*types.Var]bool // assigned as a whole (not only element writes)
	calls  map[string]bool
	traces map[string]bool
	cells  map[string]map[*types.Var]bool // key -> pointer variables through which only that cell is written
	sites  []callSite
	ctypes map[string]types.Type
}

type callSite struct {
	key  string
	recv ast.Expr
	args []ast.Expr
}

func newModset() *modset {
	return &modset{fields: map[string]types.Type{}, vars: map[*types.Var]bool{}, whole: map[*types.Var]bool{}, calls: map[string]bool{}, traces: map[string]bool{}, cells: map[string]map[*types.Var]bool{}}
}

func (m *modset) union(o *modset) bool {
	ch := false
	for k := range o.traces {
		if !m.traces[k] {
			m.traces[k] = true
			ch = true
		}
	}
	for k, t := range o.fields {
		if _, ok := m.fields[k]; !ok {
			m.fields[k] = t
			ch = true
		}
	}
	return ch
}

func (e *Engine) buildModsets() {
	e.modsets = map[string]*modset{}
	for k, fd := range e.funcs {
		ms := newModset()
		e.scanningKey = k
		e.scanMods(fd.Body, ms)
		e.scanningKey = ""
		for ck := range ms.cells {
			ms.fields[ck] = ms.ctypes[ck]
		}
		e.modsets[k] = ms
	}
	// contracts with an explicit assigns clause define the callee's effect
	declared := map[string]*modset{}
	for k, con := range e.spec.Contracts {
		if as := con.clauses("assigns"); len(as) > 0 {
			if fd, ok := e.funcs[k]; ok {
				declared[k] = e.assignsKeys(con, fd)
			}
		} else if con.Assumed || con.Pure {
			// (a function declared pure has, for its callers, no effect at all -
			// whatever its body does is the trusted-stability part of "pure")
			if _, ok := e.funcs[k]; ok {
				declared[k] = newModset()
			}
		}
	}
	// traces propagate through every function, declared assigns or not
	for changed := true; changed; {
		changed = false
		for k, ms := range e.modsets {
			if con := e.spec.Contracts[k]; con != nil && con.Assumed {
				continue
			}
			for callee := range ms.calls {
				if con := e.spec.Contracts[callee]; con != nil && (con.Assumed || con.Pure) {
					continue
				}
				if cm := e.modsets[callee]; cm != nil {
					for t := range cm.traces {
						if !ms.traces[t] {
							ms.traces[t] = true
							changed = true
						}
					}
				}
			}
		}
	}
	for changed := true; changed; {
		changed = false
		for k, ms := range e.modsets {
			if _, ok := declared[k]; ok {
				continue
			}
			for callee := range ms.calls {
				var cm *modset
				if d, ok := declared[callee]; ok {
					cm = d
				} else {
					cm = e.modsets[callee]
				}
				if cm != nil && ms.union(cm) {
					changed = true
				}
			}
		}
	}
	for k, d := range declared {
		d.calls = e.modsets[k].calls
		d.vars = e.modsets[k].vars
		if !e.spec.Contracts[k].Assumed && !e.spec.Contracts[k].Pure {
			d.traces = e.modsets[k].traces
		}
		e.modsets[k] = d
	}
}

func (e *Engine) modsetOf(key string) *modset {
	if ms, ok := e.modsets[key]; ok {
		return ms
	}
	return newModset()
}

// assignsKeys resolves "assigns p.f, T.g" to heap keys using the real
// function's parameter types.
func (e *Engine) assignsKeys(con *Contract, fd *ast.FuncDecl) *modset {
	ms := newModset()
	fn := e.info.Defs[fd.Name].(*types.Func)
	sig := fn.Type().(*types.Signature)
	names := map[string]types.Type{}
	if con.Decl.Recv != nil && len(con.Decl.Recv.List) == 1 && len(con.Decl.Recv.List[0].Names) == 1 && sig.Recv() != nil {
		names[con.Decl.Recv.List[0].Names[0].Name] = sig.Recv().Type()
	}
	i := 0
	if con.Decl.Type.Params != nil {
		for _, f := range con.Decl.Type.Params.List {
			for _, n := range f.Names {
				if i < sig.Params().Len() {
					names[n.Name] = sig.Params().At(i).Type()
				}
				i++
			}
		}
	}
	var typeOfExpr func(x ast.Expr) types.Type
	typeOfExpr = func(x ast.Expr) types.Type {
		switch y := x.(type) {
		case *ast.Ident:
			return names[y.Name]
		case *ast.SelectorExpr:
			bt := typeOfExpr(y.X)
			if bt == nil {
				return nil
			}
			obj, _, _ := types.LookupFieldOrMethod(bt, true, e.pkg.Types, y.Sel.Name)
			if v, ok := obj.(*types.Var); ok {
				return v.Type()
			}
		case *ast.CallExpr:
			if id, ok := y.Fun.(*ast.Ident); ok && id.Name == "old" && len(y.Args) == 1 {
				return typeOfExpr(y.Args[0])
			}
		}
		return nil
	}
	for _, cl := range con.clauses("assigns") {
		for _, ex := range cl.Assigns {
			switch g := ex.(type) {
			case *ast.CallExpr:
				if id, ok := g.Fun.(*ast.Ident); ok && e.isGhost(id.Name) {
					ms.fields[ghostKey(id.Name)] = nil
				}
				continue
			case *ast.Ident:
				if e.isGhost(g.Name) {
					ms.fields[ghostKey(g.Name)] = nil
				}
				continue
			}
			sel, ok := ex.(*ast.SelectorExpr)
			if !ok {
				continue
			}
			if id, ok := sel.X.(*ast.Ident); ok {
				if _, isParam := names[id.Name]; !isParam {
					if tn, ok := e.pkg.Types.Scope().Lookup(id.Name).(*types.TypeName); ok {
						if stt, ok := tn.Type().Underlying().(*types.Struct); ok {
							for j := 0; j < stt.NumFields(); j++ {
								if stt.Field(j).Name() == sel.Sel.Name {
									ms.fields[heapKey(id.Name, sel.Sel.Name)] = stt.Field(j).Type()
								}
							}
						}
						continue
					}
				}
			}
			bt := typeOfExpr(sel.X)
			if bt == nil {
				continue
			}
			obj, path, _ := types.LookupFieldOrMethod(bt, true, e.pkg.Types, sel.Sel.Name)
			fv, ok := obj.(*types.Var)
			if !ok {
				continue
			}
			cur := bt
			for _, idx := range path[:len(path)-1] {
				cur = stepType(cur, idx)
			}
			if p, ok := under(cur).(*types.Pointer); ok {
				cur = p.Elem()
			}
			ms.fields[heapKey(structName(cur), fv.Name())] = fv.Type()
		}
	}
	return ms
}

func stepType(t types.Type, idx int) types.Type {
	if p, ok := under(t).(*types.Pointer); ok {
		t = p.Elem()
	}
	if st, ok := under(t).(*types.Struct); ok {
		return st.Field(idx).Type()
	}
	return nil
}

func (e *Engine) scanMods(n ast.Node, ms *modset) {
	if n == nil {
		return
	}
	ast.Inspect(n, func(x ast.Node) bool {
		switch s := x.(type) {
		case *ast.AssignStmt:
			for _, l := range s.Lhs {
				e.recordWrite(l, ms, s.Tok == token.DEFINE)
			}
		case *ast.IncDecStmt:
			e.recordWrite(s.X, ms, false)
		case *ast.RangeStmt:
			if s.Tok == token.ASSIGN {
				if s.Key != nil {
					e.recordWrite(s.Key, ms, false)
				}
				if s.Value != nil {
					e.recordWrite(s.Value, ms, false)
				}
			}
		case *ast.CallExpr:
			e.recordCall(s, ms)
		}
		return true
	})
}

func (e *Engine) recordCall(call *ast.CallExpr, ms *modset) {
	for _, a := range call.Args {
		if u, ok := ast.Unparen(a).(*ast.UnaryExpr); ok && u.Op == token.AND {
			if sel, ok := ast.Unparen(u.X).(*ast.SelectorExpr); ok {
				e.recordWrite(sel, ms, false)
			}
		}
	}
	fun := ast.Unparen(call.Fun)
	switch f := fun.(type) {
	case *ast.Ident:
		switch o := e.info.Uses[f].(type) {
		case *types.Builtin:
			if (o.Name() == "copy" || o.Name() == "delete") && len(call.Args) > 0 {
				e.recordWrite(call.Args[0], ms, false)
			}
		case *types.Func:
			if k, ok := e.fobjs[o]; ok {
				ms.calls[k] = true
				ms.sites = append(ms.sites, callSite{key: k, args: call.Args})
				// (a function's calls of itself are not recorded in its own trace)
				if con := e.spec.Contracts[k]; con != nil && con.Traced && k != e.scanningKey {
					ms.traces[k] = true
				}
			}
		}
	case *ast.SelectorExpr:
		if id, ok := f.X.(*ast.Ident); ok {
			if pn, ok := e.info.Uses[id].(*types.PkgName); ok {
				// imported function whose contract updates an argument in place
				key := pn.Imported().Name() + "." + f.Sel.Name
				cands := []string{key}
				if len(call.Args) == 1 {
					if n, ok := e.info.TypeOf(call.Args[0]).(*types.Named); ok {
						cands = append(cands, key+"."+n.Obj().Name())
					}
				}
				for _, k := range cands {
					if con := e.spec.Contracts[k]; con != nil {
						for _, cl := range con.clauses("assigns") {
							for _, ex := range cl.Assigns {
								if g, ok := ex.(*ast.CallExpr); ok {
									if gid, ok := g.Fun.(*ast.Ident); ok && e.isGhost(gid.Name) {
										ms.fields[ghostKey(gid.Name)] = nil
									}
								}
							}
						}
						if len(con.clauses("updates")) > 0 {
							for _, a := range call.Args {
								e.recordWrite(a, ms, false)
							}
						}
						if con.Traced {
							ms.traces[k] = true
						}
					}
				}
			}
		}
		if sel, ok := e.info.Selections[f]; ok {
			// func-typed field or interface method with a traced contract
			if key := e.externalKey(sel); key != "" {
				if con := e.spec.Contracts[key]; con != nil && con.Traced {
					ms.traces[key] = true
				}
			}
			if fn, ok := sel.Obj().(*types.Func); ok {
				if k, ok := e.fobjs[fn]; ok {
					ms.calls[k] = true
					ms.sites = append(ms.sites, callSite{key: k, recv: f.X, args: call.Args})
					if con := e.spec.Contracts[k]; con != nil && con.Traced && k != e.scanningKey {
						ms.traces[k] = true
					}
					// pointer-receiver method on an addressable struct local:
					// the local (and its heap image) may change
					if id, ok := ast.Unparen(f.X).(*ast.Ident); ok {
						if v, ok := e.info.Uses[id].(*types.Var); ok {
							if _, isPtr := under(v.Type()).(*types.Pointer); !isPtr && e.isHeapStruct(v.Type()) {
								if _, wantPtr := fn.Type().(*types.Signature).Recv().Type().(*types.Pointer); wantPtr {
									ms.vars[v] = true
								}
							}
						}
					}
				}
			}
		} else if id, ok := f.X.(*ast.Ident); ok {
			if pn, ok := e.info.Uses[id].(*types.PkgName); ok && pn.Imported() == e.pkg.Types {
				_ = pn
			}
		}
	}
}

func (e *Engine) recordWrite(lhs ast.Expr, ms *modset, define bool) {
	e.recordWriteE(lhs, ms, define, false)
}

func (e *Engine) recordWriteE(lhs ast.Expr, ms *modset, define bool, elem bool) {
	switch x := lhs.(type) {
	case *ast.ParenExpr:
		e.recordWriteE(x.X, ms, define, elem)
	case *ast.Ident:
		if x.Name == "_" {
			return
		}
		if v, ok := e.info.Uses[x].(*types.Var); ok {
			ms.vars[v] = true
			if !elem {
				ms.whole[v] = true
			}
		} else if v, ok := e.info.Defs[x].(*types.Var); ok && v != nil {
			ms.vars[v] = true
			if !elem {
				ms.whole[v] = true
			}
		}
	case *ast.IndexExpr:
		isSlice := false
		if t := e.info.TypeOf(x.X); t != nil {
			_, isSlice = under(t).(*types.Slice)
		}
		e.recordWriteE(x.X, ms, false, isSlice)
	case *ast.StarExpr:
		e.recordWrite(x.X, ms, false)
	case *ast.SelectorExpr:
		sel, ok := e.info.Selections[x]
		if !ok || sel.Kind() != types.FieldVal {
			return
		}
		cur := sel.Recv()
		path := sel.Index()
		for i, idx := range path {
			viaPtr := false
			if p, ok := under(cur).(*types.Pointer); ok {
				cur = p.Elem()
				viaPtr = true
			}
			stt, ok := under(cur).(*types.Struct)
			if !ok {
				return
			}
			f := stt.Field(idx)
			if i == len(path)-1 {
				if e.isHeapStruct(cur) {
					// through a pointer, or a struct local that may live in the heap
					k := heapKey(structName(cur), f.Name())
					if id, ok := ast.Unparen(x.X).(*ast.Ident); ok && viaPtr && len(path) == 1 {
						if v, ok := e.info.Uses[id].(*types.Var); ok {
							if ms.cells[k] == nil {
								ms.cells[k] = map[*types.Var]bool{}
							}
							ms.cells[k][v] = true
							ms.cellTypes(k, f.Type())
							return
						}
					}
					ms.fields[k] = f.Type()
				}
				if !viaPtr && len(path) == 1 {
					e.recordWrite(x.X, ms, false)
				}
				return
			}
			cur = f.Type()
		}
	}
}

// loopMods: variables declared outside the loop node that the loop body may
// assign, and the heap keys it may write.
func (e *Engine) loopMods(c *FuncCtx, n ast.Node) ([]*types.Var, *modset) {
	ms := newModset()
	e.scanMods(n, ms)
	// ghost counters ticked at call sites inside this loop
	if c != nil && c.contract != nil {
		ast.Inspect(n, func(nd ast.Node) bool {
			if x, ok := nd.(*ast.CallExpr); ok {
				if ord, ok := c.callOrd[x]; ok {
					key := e.calleeKeyOf(x)
					for _, cl := range c.contract.Clauses {
						if cl.Kind == "at" && cl.Name == key && cl.Loop == ord {
							for _, t := range tickNames(cl.Text) {
								ms.traces["tick$"+t] = true
							}
						}
					}
				}
			}
			return true
		})
	}
	for _, site := range ms.sites {
		con := e.spec.Contracts[site.key]
		callee := e.modsetOf(site.key)
		for t := range callee.traces {
			ms.traces[t] = true
		}
		if con == nil || len(con.clauses("assigns")) == 0 {
			for k, t := range callee.fields {
				ms.fields[k] = t
			}
			continue
		}
		// declared assigns: map header names to the call-site expressions
		hdr := map[string]ast.Expr{}
		if con.Decl.Recv != nil && len(con.Decl.Recv.List) == 1 && len(con.Decl.Recv.List[0].Names) == 1 && site.recv != nil {
			hdr[con.Decl.Recv.List[0].Names[0].Name] = site.recv
		}
		i := 0
		if con.Decl.Type.Params != nil {
			for _, f := range con.Decl.Type.Params.List {
				for _, nm := range f.Names {
					if i < len(site.args) {
						hdr[nm.Name] = site.args[i]
					}
					i++
				}
			}
		}
		fd := e.funcs[site.key]
		keys := e.assignsKeys(con, fd)
		for _, cl := range con.clauses("assigns") {
			for _, ex := range cl.Assigns {
				sel, ok := ex.(*ast.SelectorExpr)
				if !ok {
					continue
				}
				base, isId := sel.X.(*ast.Ident)
				var v *types.Var
				if isId {
					if ce, ok := hdr[base.Name]; ok {
						ce = ast.Unparen(ce)
						if u, ok := ce.(*ast.UnaryExpr); ok && u.Op == token.AND {
							ce = ast.Unparen(u.X) // &local: the cell of that address-taken local
						}
						if id, ok := ce.(*ast.Ident); ok {
							v, _ = e.info.Uses[id].(*types.Var)
						}
					}
				}
				// find the key this location denotes
				for k, t := range keys.fields {
					if strings.HasSuffix(k, "."+sel.Sel.Name) {
						if v != nil {
							if ms.cells[k] == nil {
								ms.cells[k] = map[*types.Var]bool{}
							}
							ms.cells[k][v] = true
							ms.cellTypes(k, t)
						} else {
							ms.fields[k] = t
						}
					}
				}
			}
		}
	}
	body := n
	switch x := n.(type) {
	case *ast.ForStmt:
		body = x.Body
	case *ast.RangeStmt:
		body = x.Body
	}
	var vars []*types.Var
	for v := range ms.vars {
		// only variables that exist outside the loop matter; inner ones are
		// (re)declared by the body itself
		if v.Pos() < body.Pos() || v.Pos() > n.End() {
			vars = append(vars, v)
		}
	}
	// deterministic order
	for i := 0; i < len(vars); i++ {
		for j := i + 1; j < len(vars); j++ {
			if vars[j].Pos() < vars[i].Pos() {
				vars[i], vars[j] = vars[j], vars[i]
			}
		}
	}
	return vars, ms
}

// externalKey names a call through a func-typed field ("Parser.CommandHandler")
// or an interface method ("Commander.Execute").
func (e *Engine) externalKey(sel *types.Selection) string {
	switch o := sel.Obj().(type) {
	case *types.Var:
		if _, ok := under(o.Type()).(*types.Signature); !ok {
			return ""
		}
		cur := sel.Recv()
		path := sel.Index()
		for _, idx := range path[:len(path)-1] {
			cur = stepType(cur, idx)
		}
		return structName(cur) + "." + o.Name()
	case *types.Func:
		if _, ok := e.fobjs[o]; ok {
			return ""
		}
		cur := sel.Recv()
		path := sel.Index()
		for _, idx := range path[:len(path)-1] {
			cur = stepType(cur, idx)
		}
		if n, ok := cur.(*types.Named); ok {
			if _, isIface := n.Underlying().(*types.Interface); isIface {
				pk := ""
				if n.Obj().Pkg() != nil && n.Obj().Pkg() != e.pkg.Types {
					pk = n.Obj().Pkg().Name() + "."
				}
				return pk + n.Obj().Name() + "." + o.Name()
			}
		}
		// method of a foreign (non-interface) type: pkg.Type.Method
		if sig, ok := o.Type().(*types.Signature); ok && sig.Recv() != nil {
			rt := sig.Recv().Type()
			if p, ok := rt.(*types.Pointer); ok {
				rt = p.Elem()
			}
			return types.TypeString(rt, func(p *types.Package) string {
				if p == e.pkg.Types {
					return ""
				}
				return p.Name()
			}) + "." + o.Name()
		}
	}
	return ""
}

func (m *modset) cellTypes(k string, t types.Type) {
	if m.ctypes == nil {
		m.ctypes = map[string]types.Type{}
	}
	m.ctypes[k] = t
}

// tickNames lists the ghost counters incremented by an "at call" clause text.
func tickNames(text string) []string {
	var out []string
	for i := 0; ; {
		j := strings.Index(text[i:], "tick(")
		if j < 0 {
			break
		}
		at := i + j
		i = at + 5
		if at > 0 && (text[at-1] == '_' || text[at-1] >= 'a' && text[at-1] <= 'z' || text[at-1] >= 'A' && text[at-1] <= 'Z') {
			continue
		}
		k := strings.IndexByte(text[i:], ')')
		if k > 0 {
			out = append(out, strings.TrimSpace(text[i:i+k]))
		}
	}
	return out
}
