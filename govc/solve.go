package main

import (
	"context"
	"fmt"
	"go/types"
	"os"
	"os/exec"
	"path/filepath"
	"strings"
	"sync"
	"syscall"
	"time"
)

type solverSpec struct {
	name string
	args func(timeoutS int, file string) []string
	bin  string
}

var solvers = []solverSpec{
	{name: "z3-5.1.0", bin: "z3-new", args: func(t int, f string) []string { return []string{fmt.Sprintf("-T:%d", t), f} }},
	{name: "cvc5-1.0", bin: "cvc5", args: func(t int, f string) []string {
		return []string{fmt.Sprintf("--tlimit=%d", t*1000), "--strings-exp", "--produce-models", f}
	}},
	{name: "z3-4.8.12", bin: "z3", args: func(t int, f string) []string { return []string{fmt.Sprintf("-T:%d", t), f} }},
}

// translateFacts turns the axioms/lemmas of the spec file into SMT.
func (e *Engine) translateFacts() (lemmas []*Obligation) {
	for _, fa := range e.spec.Facts {
		c := &FuncCtx{eng: e, key: "$fact." + fa.Name, loopOrd: nil, heapLocals: map[*types.Var]bool{}, mapOwned: map[*types.Var]bool{}, params: map[*types.Var]bool{}}
		st := &State{vars: map[*types.Var]*Val{}, heap: map[string]string{}, bound: map[string]*Val{}, facts: map[string]bool{}}
		st.bound["$spec"] = &Val{S: "1"}
		var qs []string
		var text, axText string
		func() {
			defer func() {
				if r := recover(); r != nil {
					if el, ok := r.(engineLimit); ok {
						c.limit = el.msg
						return
					}
					panic(r)
				}
			}()
			for _, f := range fa.Vars {
				t := c.resolveSpecType(f.Type)
				for _, n := range f.Names {
					bv := c.bvar(n.Name)
					st.bound[n.Name] = &Val{T: t, S: bv, Sort: e.sortOf(t)}
					qs = append(qs, fmt.Sprintf("(%s %s)", bv, e.sortOf(t)))
					// no implicit type facts: hypotheses are written out in the fact
				}
			}
			v := c.eval(st, fa.Expr)
			wrap := func(hyps []string) string {
				body := mkImplies(mkAnd(hyps...), v.S)
				if len(qs) > 0 {
					return fmt.Sprintf("(forall (%s) %s)", strings.Join(qs, " "), body)
				}
				return body
			}
			// proof obligation: with the definition instances requested by
			// unfold(); as an axiom for later use: without them (they are
			// instances of the definition, i.e. true)
			text = wrap(st.pc.list())
			isUnfold := map[string]bool{}
			for _, f := range c.unfoldFacts {
				isUnfold[f] = true
			}
			var rest []string
			for _, f := range st.pc.list() {
				if !isUnfold[f] {
					rest = append(rest, f)
				}
			}
			axText = wrap(rest)
			if fa.Kind == "axiom" {
				// the side facts of an axiom (postconditions of the assumed
				// library functions its terms mention) are themselves assumed:
				// the axiom must not become vacuous where they are not known
				body := mkAnd(append(append([]string{}, rest...), v.S)...)
				if len(qs) > 0 {
					axText = fmt.Sprintf("(forall (%s) %s)", strings.Join(qs, " "), body)
				} else {
					axText = body
				}
			}
		}()
		if c.limit != "" {
			fmt.Fprintf(os.Stderr, "govc: fact %s: %s\n", fa.Name, c.limit)
			if fa.Kind == "lemma" {
				lemmas = append(lemmas, &Obligation{Fn: "$lemma", Name: "lemma." + fa.Name, Kind: "lemma", Tags: fa.Tags, Goal: tFalse, ctx: c, Status: "engine-limit", Text: c.limit})
			}
			continue
		}
		if fa.Kind == "axiom" {
			if !fa.Manual {
				e.axioms = append(e.axioms, axiom{name: fa.Name, text: axText, decls: c.decls})
			}
		} else {
			// a lemma is proved from the facts that precede it and may be used by
			// everything that follows
			lemmas = append(lemmas, &Obligation{Fn: "$lemma", Name: "lemma." + fa.Name, Kind: "lemma", Tags: fa.Tags, Goal: text, ctx: c, Text: fa.Text, Pos: fmt.Sprintf("contracts_verif.go:%d", fa.Line), AxN: len(e.axioms) + 1})
			if !fa.Manual {
				e.axioms = append(e.axioms, axiom{name: fa.Name, text: axText, lemma: true, decls: c.decls})
			}
		}
	}
	return lemmas
}

// symbolsIn lists the declared function symbols (UFs, rec defs) that occur in text.
func (e *Engine) symbolsIn(text string, have map[string]bool) {
	for _, n := range e.ufOrder {
		if !have[n] && containsSymbol(text, n) {
			have[n] = true
		}
	}
	for _, n := range e.specOrder {
		if !have["sf_"+n] && containsSymbol(text, "sf_"+n) {
			have["sf_"+n] = true
		}
	}
}

func containsSymbol(text, sym string) bool {
	i := 0
	for {
		j := strings.Index(text[i:], sym)
		if j < 0 {
			return false
		}
		j += i
		end := j + len(sym)
		okL := j == 0 || strings.IndexByte(" ()", text[j-1]) >= 0
		okR := end == len(text) || strings.IndexByte(" ()", text[end]) >= 0
		if okL && okR {
			return true
		}
		i = j + 1
	}
}

// tokens splits an SMT term into its atoms.
func tokens(s string) []string {
	return strings.FieldsFunc(s, func(r rune) bool { return r == ' ' || r == '(' || r == ')' })
}

// relevantFacts is a cone-of-influence filter over the path facts: a fact is
// kept when it shares a path-local constant (transitively) with the goal, or
// mentions only entry-state symbols (parameters, entry heap arrays).
// Dropping hypotheses is always sound for a proof attempt; a query that is not
// unsat after filtering is retried with every fact.
func relevantFacts(o *Obligation, facts []string) []string {
	if o.ctx == nil {
		return facts
	}
	declared := map[string]bool{}
	for _, d := range o.ctx.decls {
		name := d[len("(declare-const "):]
		declared[name[:strings.IndexByte(name, ' ')]] = true
	}
	isEntry := func(n string) bool {
		return strings.HasPrefix(n, "p_") || (strings.HasPrefix(n, "H_") && !strings.Contains(n, "!")) || strings.HasPrefix(n, "G_") || strings.HasPrefix(n, "fn_") || strings.HasPrefix(n, "alloc0_")
	}
	consts := func(t string) (loc []string, any bool) {
		seen := map[string]bool{}
		for _, tok := range tokens(t) {
			if declared[tok] && !seen[tok] {
				seen[tok] = true
				any = true
				if !isEntry(tok) {
					loc = append(loc, tok)
				}
			}
		}
		return
	}
	rel := map[string]bool{}
	goalTok := map[string]bool{}
	for _, tok := range tokens(o.Goal) {
		if declared[tok] {
			goalTok[tok] = true
			rel[tok] = true
		}
	}
	type fc struct {
		loc  []string
		all  map[string]bool
		keep bool
	}
	fcs := make([]fc, len(facts))
	for i, f := range facts {
		loc, _ := consts(f)
		all := map[string]bool{}
		for _, tok := range tokens(f) {
			if declared[tok] {
				all[tok] = true
			}
		}
		fcs[i] = fc{loc: loc, all: all}
		if len(loc) == 0 {
			fcs[i].keep = true // entry-only fact (precondition, early branch)
		}
	}
	for changed := true; changed; {
		changed = false
		for i := range fcs {
			if fcs[i].keep {
				continue
			}
			hit := false
			for t := range fcs[i].all {
				if rel[t] && (!isEntry(t) || goalTok[t]) {
					hit = true
					break
				}
			}
			if hit {
				fcs[i].keep = true
				changed = true
				for _, t := range fcs[i].loc {
					rel[t] = true
				}
			}
		}
	}
	var out []string
	for i, f := range facts {
		if fcs[i].keep {
			out = append(out, f)
		}
	}
	return out
}

func (e *Engine) buildQuery(o *Obligation, withModel bool) string {
	return e.buildQueryF(o, withModel, false)
}

func (e *Engine) buildQueryF(o *Obligation, withModel, filter bool) string {
	var b strings.Builder
	fmt.Fprintf(&b, "; %s\n", o.Name)
	b.WriteString("(set-option :produce-models true)\n(set-logic ALL)\n")
	for _, d := range e.sorts.decls {
		b.WriteString(d)
		b.WriteByte('\n')
	}
	var body strings.Builder
	facts := o.PC.list()
	if filter && o.Kind != "cover" {
		facts = relevantFacts(o, facts)
	}
	for _, f := range facts {
		body.WriteString("(assert ")
		body.WriteString(f)
		body.WriteString(")\n")
	}
	body.WriteString("(assert (not ")
	body.WriteString(o.Goal)
	body.WriteString("))\n")
	bodyText := body.String()
	// relevance closure over function symbols
	have := map[string]bool{}
	e.symbolsIn(bodyText, have)
	used := map[int]bool{}
	for changed := true; changed; {
		changed = false
		for i, ax := range e.axioms {
			if used[i] || (o.AxN > 0 && i >= o.AxN-1) {
				continue
			}
			rel := false
			for s := range have {
				if containsSymbol(ax.text, s) {
					rel = true
					break
				}
			}
			if !rel {
				// an axiom about a heap field (and no function symbol) is relevant
				// when the obligation reads that field's initial array
				for _, tk := range tokens(ax.text) {
					if strings.HasPrefix(tk, "H_") && !strings.Contains(tk, "!") && containsSymbol(bodyText, tk) {
						rel = true
						break
					}
				}
			}
			if rel {
				used[i] = true
				before := len(have)
				e.symbolsIn(ax.text, have)
				if len(have) != before {
					changed = true
				}
				changed = true
			}
		}
		for _, n := range e.specOrder {
			if have["sf_"+n] {
				before := len(have)
				e.symbolsIn(e.specDefs[n], have)
				if len(have) != before {
					changed = true
				}
			}
		}
	}
	for _, n := range e.ufOrder {
		if have[n] {
			b.WriteString(e.ufs[n])
			b.WriteByte('\n')
		}
	}
	for _, n := range e.specOrder {
		if have["sf_"+n] {
			b.WriteString(e.specDefs[n])
			b.WriteByte('\n')
		}
	}
	var axb strings.Builder
	for i, ax := range e.axioms {
		if used[i] {
			fmt.Fprintf(&axb, "(assert %s) ; axiom %s\n", ax.text, ax.name)
		}
	}
	axText := axb.String()
	declared := map[string]bool{}
	if o.ctx != nil {
		for _, d := range o.ctx.decls {
			// only constants that are mentioned
			name := d[len("(declare-const "):]
			name = name[:strings.IndexByte(name, ' ')]
			if strings.Contains(bodyText, name) || containsSymbol(axText, name) {
				b.WriteString(d)
				b.WriteByte('\n')
				declared[name] = true
			}
		}
	}
	// constants that only an included axiom mentions (initial heap arrays)
	for i, ax := range e.axioms {
		if !used[i] {
			continue
		}
		for _, d := range ax.decls {
			if !strings.HasPrefix(d, "(declare-const ") {
				continue
			}
			name := d[len("(declare-const "):]
			name = name[:strings.IndexByte(name, ' ')]
			if !declared[name] && containsSymbol(ax.text, name) {
				b.WriteString(d)
				b.WriteByte('\n')
				declared[name] = true
			}
		}
	}
	b.WriteString(axText)
	b.WriteString(bodyText)
	b.WriteString("(check-sat)\n")
	if withModel {
		b.WriteString("(get-model)\n")
	}
	return b.String()
}

type solveResult struct {
	solver string
	status string // unsat sat unknown timeout error
	out    string
	secs   float64
}

func runSolver(ctx context.Context, sp solverSpec, timeoutS int, file string) solveResult {
	start := time.Now()
	// The budget is CPU time (ulimit -t), so that a loaded machine does not turn
	// provable obligations into timeouts; wall-clock time is only capped at six
	// times the budget as a safety net.  The solvers' own (wall-clock) limits are
	// set to that cap.
	wall := timeoutS * 6
	cctx, cancel := context.WithTimeout(ctx, time.Duration(wall+2)*time.Second)
	defer cancel()
	argv := append([]string{sp.bin}, sp.args(wall, file)...)
	script := fmt.Sprintf("ulimit -t %d; exec \"$@\"", timeoutS)
	cmd := exec.CommandContext(cctx, "sh", append([]string{"-c", script, "sh"}, argv...)...)
	out, err := cmd.CombinedOutput()
	secs := time.Since(start).Seconds()
	text := string(out)
	first := strings.TrimSpace(text)
	if i := strings.IndexByte(first, '\n'); i >= 0 {
		first = strings.TrimSpace(first[:i])
	}
	switch first {
	case "unsat", "sat", "unknown":
		return solveResult{sp.name, first, text, secs}
	case "timeout":
		return solveResult{sp.name, "timeout", text, secs}
	}
	if cctx.Err() != nil {
		return solveResult{sp.name, "timeout", text, secs}
	}
	if ee, ok := err.(*exec.ExitError); ok && !ee.Success() {
		if ws, ok := ee.Sys().(syscall.WaitStatus); ok && ws.Signaled() && (ws.Signal() == syscall.SIGXCPU || ws.Signal() == syscall.SIGKILL) {
			return solveResult{sp.name, "timeout", text, secs} // CPU budget used up
		}
	}
	if strings.Contains(text, "interrupted") || strings.Contains(text, "timeout") {
		return solveResult{sp.name, "timeout", text, secs}
	}
	_ = err
	if os.Getenv("GOVC_DEBUG") != "" {
		fmt.Fprintf(os.Stderr, "govc: solver %s error on %s: %s\n", sp.name, file, firstLines(text, 2))
	}
	return solveResult{sp.name, "error", text, secs}
}

// discharge decides one obligation: quick attempt on the newest z3, then a race
// of all three back ends.
func (e *Engine) discharge(o *Obligation, workdir string, budgetS int, idx int) {
	if o.Status != "" {
		return
	}
	q := e.buildQuery(o, false)
	o.Bytes = len(q)
	if len(q) > 4<<20 {
		o.Status = "engine-limit"
		o.Text += " [VC larger than 4 MB]"
		return
	}
	file := filepath.Join(workdir, fmt.Sprintf("q%05d.smt2", idx))
	o.Outputs = map[string]string{}
	if o.Kind == "cover" && budgetS > 3 {
		budgetS = 3 // a vacuity guard is not worth a long wait
	}
	start := time.Now()
	quick := 2
	if budgetS < quick {
		quick = budgetS
	}
	// race helper: all back ends at once, first decisive answer wins
	race := func(file string, budget int, unsatOnly bool) solveResult {
		ctx, cancel := context.WithCancel(context.Background())
		defer cancel()
		ch := make(chan solveResult, len(solvers))
		for _, sp := range solvers {
			sp := sp
			go func() { ch <- runSolver(ctx, sp, budget, file) }()
		}
		best := solveResult{status: "unknown"}
		nerr := 0
		for i := 0; i < len(solvers); i++ {
			rr := <-ch
			o.Outputs[rr.solver] = firstLines(rr.out, 3)
			if rr.status == "error" {
				nerr++
				if nerr == len(solvers) {
					// every back end rejected the query: a generator bug, not a proof failure
					fmt.Fprintf(os.Stderr, "govc: malformed VC for %s: %s\n", o.Name, firstLines(rr.out, 2))
					return solveResult{solver: rr.solver, status: "error", out: rr.out}
				}
				continue
			}
			if rr.status == "unsat" || (rr.status == "sat" && !unsatOnly) {
				return rr
			}
			if rr.status == "timeout" && best.status != "unknown" || best.solver == "" {
				best = rr
			}
			if rr.status == "unknown" {
				best = rr
			}
		}
		return best
	}
	// fast path: cone-of-influence filtered hypotheses; only "unsat" counts
	if o.Kind != "cover" {
		qf := e.buildQueryF(o, false, true)
		if len(qf) < len(q) {
			ffile := filepath.Join(workdir, fmt.Sprintf("q%05d.f.smt2", idx))
			if err := os.WriteFile(ffile, []byte(qf), 0o644); err == nil {
				rf := runSolver(context.Background(), solvers[0], quick, ffile)
				if os.Getenv("GOVC_KEEPALL") == "" {
					os.Remove(ffile)
				}
				if rf.status == "unsat" {
					o.TimeS = time.Since(start).Seconds()
					o.Solver = rf.solver
					o.Status = "proved"
					o.Bytes = len(qf)
					return
				}
			}
		}
	}
	if err := os.WriteFile(file, []byte(q), 0o644); err != nil {
		o.Status = "error"
		return
	}
	final := race(file, budgetS, false)
	if final.status != "unsat" && final.status != "sat" && final.status != "error" && o.Kind != "cover" {
		// undecided: before giving up try other heuristic seeds (an obligation
		// that is provable but unlucky must not become a false alarm)
		ctx, cancel := context.WithCancel(context.Background())
		type seeded struct {
			name string
			args []string
		}
		alts := []seeded{
			{"z3-5.1.0/seed7", []string{"smt.random_seed=7", "sat.random_seed=7"}},
			{"z3-5.1.0/seed23", []string{"smt.random_seed=23", "sat.random_seed=23", "smt.arith.random_initial_value=true"}},
			{"z3-4.8.12/seed11", []string{"smt.random_seed=11"}},
		}
		ch := make(chan solveResult, len(alts))
		for _, a := range alts {
			a := a
			go func() {
				sp := solverSpec{name: a.name, bin: "z3-new", args: func(t int, f string) []string {
					return append([]string{fmt.Sprintf("-T:%d", t)}, append(a.args, f)...)
				}}
				if strings.HasPrefix(a.name, "z3-4.8.12") {
					sp.bin = "z3"
				}
				ch <- runSolver(ctx, sp, budgetS, file)
			}()
		}
		for i := 0; i < len(alts); i++ {
			rr := <-ch
			o.Outputs[rr.solver] = firstLines(rr.out, 3)
			if rr.status == "unsat" || rr.status == "sat" {
				final = rr
				break
			}
		}
		cancel()
	}
	o.TimeS = time.Since(start).Seconds()
	o.Solver = final.solver
	expectSat := o.Kind == "cover"
	switch final.status {
	case "unsat":
		if expectSat {
			o.Status = "failed" // vacuous precondition
		} else {
			o.Status = "proved"
		}
	case "sat":
		if expectSat {
			o.Status = "proved"
		} else {
			o.Status = "failed"
			// fetch a model from the solver that answered
			qm := e.buildQuery(o, true)
			mfile := filepath.Join(workdir, fmt.Sprintf("q%05d.model.smt2", idx))
			os.WriteFile(mfile, []byte(qm), 0o644)
			for _, sp := range solvers {
				if sp.name == final.solver {
					mr := runSolver(context.Background(), sp, budgetS, mfile)
					o.Model = mr.out
				}
			}
		}
	case "timeout":
		o.Status = "timeout"
		if expectSat {
			o.Status = "proved" // a cover query that cannot be refuted is not vacuous evidence
			o.Solver = "undecided-cover"
		}
	default:
		o.Status = "unknown"
		if expectSat {
			o.Status = "proved"
			o.Solver = "undecided-cover"
		}
	}
	if o.Status == "proved" && os.Getenv("GOVC_KEEPALL") == "" {
		os.Remove(file)
	}
}

func firstLines(s string, n int) string {
	lines := strings.Split(strings.TrimSpace(s), "\n")
	if len(lines) > n {
		lines = lines[:n]
	}
	return strings.Join(lines, "\n")
}

func (e *Engine) dischargeAll(obls []*Obligation, workdir string, budgetS, workers int) {
	var wg sync.WaitGroup
	ch := make(chan int)
	for w := 0; w < workers; w++ {
		wg.Add(1)
		go func() {
			defer wg.Done()
			for i := range ch {
				e.discharge(obls[i], workdir, budgetS, i)
			}
		}()
	}
	for i := range obls {
		ch <- i
	}
	close(ch)
	wg.Wait()
	e.escalate(obls, workdir, budgetS)
}

// escalate gives obligations that stayed undecided (no model, no proof) a
// second, much longer attempt once the machine is otherwise idle: every back
// end and several heuristic seeds at once.  A provable obligation that was
// merely unlucky under load must not become a false alarm; one that is really
// broken stays undecided and is reported.  At most eight obligations are
// escalated - more than that is not bad luck (the bound is four).
func (e *Engine) escalate(obls []*Obligation, workdir string, budgetS int) {
	var und []int
	for i, o := range obls {
		if (o.Status == "timeout" || o.Status == "unknown") && o.Kind != "cover" {
			und = append(und, i)
		}
	}
	if len(und) == 0 || len(und) > 4 {
		return
	}
	for _, o := range obls {
		if o.Status == "failed" && o.Kind != "cover" {
			return // the run has a refuted obligation anyway: no point in waiting
		}
	}
	long := budgetS * 4
	if long > 90 {
		long = 90
	}
	type variant struct {
		name, bin string
		args      []string
	}
	vars := []variant{
		{"z3-5.1.0", "z3-new", nil},
		{"cvc5-1.0", "cvc5", nil},
		{"z3-4.8.12", "z3", nil},
		{"z3-5.1.0/seed7", "z3-new", []string{"smt.random_seed=7", "sat.random_seed=7"}},
		{"z3-5.1.0/seed23", "z3-new", []string{"smt.random_seed=23", "sat.random_seed=23", "smt.arith.random_initial_value=true"}},
		{"z3-5.1.0/seed101", "z3-new", []string{"smt.random_seed=101", "sat.random_seed=101"}},
		{"z3-4.8.12/seed11", "z3", []string{"smt.random_seed=11"}},
	}
	sem := make(chan struct{}, 2)
	var wg sync.WaitGroup
	for _, i := range und {
		i := i
		wg.Add(1)
		go func() {
			defer wg.Done()
			sem <- struct{}{}
			defer func() { <-sem }()
			o := obls[i]
			file := filepath.Join(workdir, fmt.Sprintf("q%05d.smt2", i))
			if _, err := os.Stat(file); err != nil {
				if os.WriteFile(file, []byte(e.buildQuery(o, false)), 0o644) != nil {
					return
				}
			}
			start := time.Now()
			ctx, cancel := context.WithCancel(context.Background())
			defer cancel()
			ch := make(chan solveResult, len(vars))
			for _, v := range vars {
				v := v
				go func() {
					sp := solverSpec{name: v.name, bin: v.bin, args: func(t int, f string) []string {
						if v.bin == "cvc5" {
							return []string{fmt.Sprintf("--tlimit=%d", t*1000), "--strings-exp", f}
						}
						return append([]string{fmt.Sprintf("-T:%d", t)}, append(append([]string{}, v.args...), f)...)
					}}
					ch <- runSolver(ctx, sp, long, file)
				}()
			}
			for k := 0; k < len(vars); k++ {
				rr := <-ch
				if rr.status == "unsat" {
					o.Status = "proved"
					o.Solver = rr.solver + "/escalated"
					o.TimeS += time.Since(start).Seconds()
					if os.Getenv("GOVC_KEEPALL") == "" {
						os.Remove(file)
					}
					return
				}
			}
			o.TimeS += time.Since(start).Seconds()
		}()
	}
	wg.Wait()
}
