package main

// Bounded concrete search for a failing input.
//
// When a failed obligation of a function over plain values (strings, integers,
// booleans, slices of strings) comes without a replayable model - the solver
// said "unknown", the model lives in the abstraction, or the obligation is an
// invariant rather than a postcondition - the REAL function is run on a fixed
// pool of small inputs (one injected test, go test -overlay) and every
// postcondition of its contract is evaluated on each observed result.  An input
// on which a postcondition is false (or the function panics) is reported as the
// failing input.  This is a bounded check (the bound is the pool below); it can
// only confirm a violation, never refute one, and nothing found means nothing.

import (
	"encoding/json"
	"fmt"
	"go/types"
	"os"
	"sort"
	"strings"
	"time"
)

var searchStrings = []string{``, `a`, `-`, `--`, `-a`, `--a`, `---a`, `-ab`, `--ab=c`, `-a=b`, `a b`, ` a `, "é", "-é", "日本x", `a:b`, `"a"`, "a\tb", `-1`, `-1.5`, `abc def ghi`, `\`, `=`, "éadd", `add`, "a\nb", "\xff", "-\xffa", `a=`, `ab=`, `--a=`, `--file=-`, `-fx--`, `a-`, `x--`, `aaa bbb ccc ddd`, `ab cd`, "héllo wörld ünï", `  x  `}
var searchLists = [][]string{{}, {`a`}, {`a`, `b`}, {`abd`, `add`}, {`qqqq`, `abx`, `zzzzz`}, {`status`, `stats`}}
var searchInts = []int64{0, 1, 2, 3, 5, 10, 80, -1}

type searchHit struct {
	Model  map[string]string
	Clause *Clause
	Why    string
	Source string
	Cmd    string
	Obs    string
	Tried  int
}

func (e *Engine) candidatePool(c *FuncCtx) ([][]string, bool) {
	var pools [][]string
	for _, p := range c.paramList {
		var pool []string
		switch u := under(p.T).(type) {
		case *types.Basic:
			switch {
			case u.Info()&types.IsString != 0:
				for _, s := range searchStrings {
					pool = append(pool, fmt.Sprintf("%q", s))
				}
			case u.Info()&types.IsBoolean != 0:
				pool = []string{"false", "true"}
			case u.Info()&types.IsInteger != 0:
				for _, n := range searchInts {
					if u.Info()&types.IsUnsigned != 0 && n < 0 {
						continue
					}
					pool = append(pool, fmt.Sprintf("%s(%d)", types.TypeString(p.T, func(*types.Package) string { return "" }), n))
				}
			default:
				return nil, false
			}
		case *types.Slice:
			for _, l := range searchLists {
				var qs []string
				for _, s := range l {
					qs = append(qs, fmt.Sprintf("%q", s))
				}
				pool = append(pool, "[]string{"+strings.Join(qs, ", ")+"}")
			}
		default:
			return nil, false
		}
		pools = append(pools, pool)
	}
	return pools, true
}

// combos enumerates the product of the pools, or a deterministic sample of it
// when it is larger than max.
func combos(pools [][]string, max int) [][]string {
	total := 1
	for _, p := range pools {
		total *= len(p)
		if total > 1<<30 {
			total = 1 << 30
			break
		}
	}
	pick := func(k int) []string {
		out := make([]string, len(pools))
		for i, p := range pools {
			out[i] = p[k%len(p)]
			k /= len(p)
		}
		return out
	}
	var out [][]string
	if total <= max {
		for k := 0; k < total; k++ {
			out = append(out, pick(k))
		}
		return out
	}
	seen := map[int]bool{}
	x := uint64(12345)
	for len(out) < max {
		x = x*6364136223846793005 + 1442695040888963407
		k := int((x >> 33) % uint64(total))
		if !seen[k] {
			seen[k] = true
			out = append(out, pick(k))
		}
	}
	return out
}

func (e *Engine) searchTestSource(c *FuncCtx, cs [][]string) string {
	one, _ := e.replayTestSource(c, cs[0])
	// turn the single-call test into a helper run once per input
	i := strings.Index(one, "func TestGovcReplay(t *testing.T) {\n")
	head := one[:i]
	body := one[i+len("func TestGovcReplay(t *testing.T) {\n"):]
	call := callText(c, cs[0])
	var b strings.Builder
	b.WriteString(head)
	// helper: the body of the single test with the call replaced by a closure parameter is
	// awkward to derive textually, so one helper per input is generated instead
	for k, args := range cs {
		fmt.Fprintf(&b, "func govcReplay%d() {\n", k)
		nb := strings.Replace(body, call, callText(c, args), 1)
		nb = strings.Replace(nb, `fmt.Printf("GOVC-REPLAY %s\n", b)`, fmt.Sprintf(`fmt.Printf("GOVC-REPLAY %d %%s\n", b)`, k), 1)
		b.WriteString(nb)
	}
	b.WriteString("func TestGovcReplay(t *testing.T) {\n")
	for k := range cs {
		fmt.Fprintf(&b, "\tgovcReplay%d()\n", k)
	}
	b.WriteString("}\n")
	return b.String()
}

func callText(c *FuncCtx, args []string) string {
	fn := c.eng.info.Defs[c.decl.Name].(*types.Func)
	sig := fn.Type().(*types.Signature)
	call := c.decl.Name.Name + "(" + strings.Join(args, ", ") + ")"
	if sig.Variadic() && len(args) > 0 {
		call = c.decl.Name.Name + "(" + strings.Join(args[:len(args)-1], ", ")
		if len(args) > 1 {
			call += ", "
		}
		call += args[len(args)-1] + "...)"
	}
	return call
}

// boundedSearch runs the real function on the pool and evaluates the
// postconditions of its contract (those carrying the property first).
func (e *Engine) boundedSearch(c *FuncCtx, prop, repo string) *searchHit {
	if !replayable(c) || c.contract == nil {
		return nil
	}
	if e.searchCache == nil {
		e.searchCache = map[string]*searchHit{}
	}
	if h, ok := e.searchCache[c.key]; ok {
		return h
	}
	e.searchCache[c.key] = nil
	pools, ok := e.candidatePool(c)
	if !ok || len(pools) == 0 {
		return nil
	}
	cs := combos(pools, 240)
	work, _ := os.MkdirTemp("", "govc-search-")
	defer os.RemoveAll(work)
	src := e.searchTestSource(c, cs)
	obs, cmdline, err := runOverlayTest(repo, work, src)
	if err != nil {
		return nil
	}
	type res struct {
		Panic   string            `json:"panic"`
		Results []json.RawMessage `json:"results"`
	}
	results := map[int]*res{}
	for _, l := range strings.Split(obs, "\n") {
		if !strings.HasPrefix(l, "GOVC-REPLAY ") {
			continue
		}
		rest := strings.TrimPrefix(l, "GOVC-REPLAY ")
		sp := strings.IndexByte(rest, ' ')
		if sp < 0 {
			continue
		}
		var k int
		if _, err := fmt.Sscanf(rest[:sp], "%d", &k); err != nil {
			continue
		}
		var r res
		if json.Unmarshal([]byte(rest[sp+1:]), &r) == nil {
			results[k] = &r
		}
	}
	var posts []*Clause
	for _, cl := range c.contract.clauses("ensures") {
		if hasTag(cl.Tags, prop) {
			posts = append(posts, cl)
		}
	}
	for _, cl := range c.contract.clauses("ensures") {
		if !hasTag(cl.Tags, prop) {
			posts = append(posts, cl)
		}
	}
	fn := e.info.Defs[c.decl.Name].(*types.Func)
	nres := fn.Type().(*types.Signature).Results().Len()
	keys := make([]int, 0, len(results))
	for k := range results {
		keys = append(keys, k)
	}
	sort.Ints(keys)
	deadline := time.Now().Add(90 * time.Second)
	tried := 0
	for _, k := range keys {
		if time.Now().After(deadline) {
			break
		}
		r := results[k]
		model := map[string]string{}
		for i, p := range c.paramList {
			model[p.Name] = cs[k][i]
		}
		tried++
		single, _ := e.replayTestSource(c, cs[k])
		if r.Panic != "" {
			// a panic is a failing input only where the contract promises none:
			// the preconditions must hold for the input
			if e.preconditionsHold(c, model, work) {
				h := &searchHit{Model: model, Why: "bounded search: the real function panics on this input, which satisfies the preconditions: " + r.Panic, Source: single, Cmd: cmdline, Obs: "GOVC-REPLAY " + mustJSON(r), Tried: tried}
				e.searchCache[c.key] = h
				return h
			}
			continue
		}
		if len(r.Results) != nres {
			continue
		}
		if !e.preconditionsHold(c, model, work) {
			continue
		}
		for _, cl := range posts {
			ok, why := e.evalClauseConcrete(c, cl, model, r.Results, work)
			if ok {
				h := &searchHit{Model: model, Clause: cl, Why: fmt.Sprintf("bounded search over %d small inputs: on this input the real function returns results for which the postcondition \"%s\" is false (%s)", len(cs), cl.Text, why), Source: single, Cmd: cmdline, Obs: "GOVC-REPLAY " + mustJSON(r), Tried: tried}
				e.searchCache[c.key] = h
				return h
			}
		}
	}
	return nil
}

func mustJSON(v interface{}) string {
	b, _ := json.Marshal(v)
	return string(b)
}
