package main

import (
	"fmt"
	"go/ast"
	"go/token"
	"go/types"
	"sort"
	"strconv"
	"strings"
)

type outKind int

const (
	oNext outKind = iota
	oBreak
	oContinue
	oReturn
)

type outcome struct {
	kind outKind
	st   *State
}

const maxPaths = 20000

func (c *FuncCtx) execBlock(st *State, stmts []ast.Stmt) []outcome {
	cur := []*State{st}
	var outs []outcome
	for _, s := range stmts {
		var next []*State
		for _, q := range cur {
			if q.dead {
				continue
			}
			for _, o := range c.execStmt(q, s) {
				if o.st.dead {
					continue
				}
				if o.kind == oNext {
					next = append(next, o.st)
				} else {
					outs = append(outs, o)
				}
			}
		}
		cur = next
		c.paths += len(cur)
		if len(cur)+len(outs) > maxPaths {
			limitf("path explosion in %s (> %d paths)", c.key, maxPaths)
		}
		if len(cur) == 0 {
			break
		}
	}
	for _, q := range cur {
		outs = append(outs, outcome{oNext, q})
	}
	return outs
}

func one(st *State) []outcome { return []outcome{{oNext, st}} }

func (c *FuncCtx) execStmt(st *State, s ast.Stmt) []outcome {
	switch x := s.(type) {
	case *ast.EmptyStmt:
		return one(st)
	case *ast.BlockStmt:
		return c.execBlock(st, x.List)
	case *ast.ExprStmt:
		if call, ok := ast.Unparen(x.X).(*ast.CallExpr); ok {
			if outs, handled := c.execIteratorCall(st, call); handled {
				return outs
			}
		}
		c.evalMulti(st, x.X)
		return one(st)
	case *ast.AssignStmt:
		c.execAssign(st, x)
		return one(st)
	case *ast.DeclStmt:
		c.execDecl(st, x)
		return one(st)
	case *ast.IncDecStmt:
		v := c.eval(st, x.X)
		op := token.ADD
		if x.Tok == token.DEC {
			op = token.SUB
		}
		r := c.binop(st, op, v, &Val{T: v.T, S: "1", Sort: "Int", Untyped: true}, x.Pos(), v.T)
		c.assign(st, x.X, r)
		return one(st)
	case *ast.ReturnStmt:
		return c.execReturn(st, x)
	case *ast.IfStmt:
		return c.execIf(st, x)
	case *ast.ForStmt:
		return c.loopExits(x, c.execFor(st, x))
	case *ast.RangeStmt:
		return c.loopExits(x, c.execRange(st, x))
	case *ast.SwitchStmt:
		return c.execSwitch(st, x)
	case *ast.TypeSwitchStmt:
		return c.execTypeSwitch(st, x)
	case *ast.BranchStmt:
		if x.Label != nil {
			limitf("%s: labelled %s", c.eng.posStr(x.Pos()), x.Tok)
		}
		switch x.Tok {
		case token.BREAK:
			return []outcome{{oBreak, st}}
		case token.CONTINUE:
			return []outcome{{oContinue, st}}
		}
	case *ast.DeferStmt:
		// only "defer file.Close()" style cleanups of foreign values are accepted
		if sel, ok := x.Call.Fun.(*ast.SelectorExpr); ok && sel.Sel.Name == "Close" && len(x.Call.Args) == 0 {
			return one(st)
		}
	}
	limitf("%s: unsupported statement %T", c.eng.posStr(s.Pos()), s)
	return nil
}

// ------------------------------------------------------------- assign ---

func (c *FuncCtx) execDecl(st *State, x *ast.DeclStmt) {
	gd, ok := x.Decl.(*ast.GenDecl)
	if !ok || gd.Tok != token.VAR {
		if ok && (gd.Tok == token.CONST || gd.Tok == token.TYPE) {
			return
		}
		limitf("%s: unsupported declaration", c.eng.posStr(x.Pos()))
	}
	for _, sp := range gd.Specs {
		vs := sp.(*ast.ValueSpec)
		var vals []*Val
		if len(vs.Values) == 1 && len(vs.Names) > 1 {
			vals = c.evalMulti(st, vs.Values[0])
		} else {
			for _, e := range vs.Values {
				vals = append(vals, c.eval(st, e))
			}
		}
		for i, n := range vs.Names {
			obj, _ := c.eng.info.Defs[n].(*types.Var)
			if obj == nil {
				continue
			}
			var v *Val
			if i < len(vals) {
				v = c.coerce(st, vals[i], obj.Type())
			} else {
				v = c.val(c.eng.zero(obj.Type()), obj.Type())
			}
			c.declare(st, obj, v)
		}
	}
}

func (c *FuncCtx) declare(st *State, obj *types.Var, v *Val) {
	if c.heapLocals[obj] {
		ref := c.alloc(st, obj.Type())
		c.storeStruct(st, ref, v)
		st.vars[obj] = &Val{T: obj.Type(), S: ref, Sort: "Int"}
		return
	}
	st.vars[obj] = c.share(st, v, obj.Name())
}

// share names a large term by a fresh constant so that later terms refer to
// it instead of copying it (keeps VCs linear in the path length).
func (c *FuncCtx) share(st *State, v *Val, hint string) *Val {
	if len(v.S) < 160 || v.Closure != nil {
		return v
	}
	// slices and maps: keep the constructor visible (so that offset/length
	// stay syntactically known) and name only the large components
	if (strings.HasPrefix(v.Sort, "Sl_") || strings.HasPrefix(v.Sort, "Mp_")) && strings.HasPrefix(v.S, "(mk_"+v.Sort+" ") {
		args := splitArgs(v.S[len("(mk_"+v.Sort+" ") : len(v.S)-1])
		for i, a := range args {
			if len(a) >= 120 {
				var srt string
				switch {
				case strings.HasPrefix(v.Sort, "Sl_") && i == 0:
					srt = fmt.Sprintf("(Array Int %s)", c.eng.sortOf(under(v.T).(*types.Slice).Elem()))
				case strings.HasPrefix(v.Sort, "Sl_") && i < 3:
					srt = "Int"
				case strings.HasPrefix(v.Sort, "Mp_") && i == 0:
					srt = fmt.Sprintf("(Array %s Bool)", c.eng.sortOf(under(v.T).(*types.Map).Key()))
				case strings.HasPrefix(v.Sort, "Mp_") && i == 1:
					m := under(v.T).(*types.Map)
					srt = fmt.Sprintf("(Array %s %s)", c.eng.sortOf(m.Key()), c.eng.sortOf(m.Elem()))
				default:
					srt = "Bool"
				}
				args[i] = c.shareTerm(st, a, srt, hint)
			}
		}
		nv := *v
		nv.S = "(mk_" + v.Sort + " " + strings.Join(args, " ") + ")"
		return &nv
	}
	n := c.fresh(hint, v.Sort)
	st.assume(mkEq(n, v.S))
	nv := *v
	nv.S = n
	return &nv
}

func (c *FuncCtx) shareTerm(st *State, term, sort, hint string) string {
	if len(term) < 160 {
		return term
	}
	n := c.fresh(hint, sort)
	st.assume(mkEq(n, term))
	return n
}

func (c *FuncCtx) execAssign(st *State, x *ast.AssignStmt) {
	if x.Tok != token.ASSIGN && x.Tok != token.DEFINE {
		// op-assign
		ops := map[token.Token]token.Token{token.ADD_ASSIGN: token.ADD, token.SUB_ASSIGN: token.SUB, token.MUL_ASSIGN: token.MUL,
			token.QUO_ASSIGN: token.QUO, token.REM_ASSIGN: token.REM, token.OR_ASSIGN: token.OR, token.AND_ASSIGN: token.AND}
		op, ok := ops[x.Tok]
		if !ok {
			limitf("%s: unsupported assignment operator %s", c.eng.posStr(x.Pos()), x.Tok)
		}
		l := c.eval(st, x.Lhs[0])
		r := c.eval(st, x.Rhs[0])
		c.assign(st, x.Lhs[0], c.binop(st, op, l, r, x.Pos(), l.T))
		return
	}
	var vals []*Val
	if len(x.Rhs) == 1 && len(x.Lhs) > 1 {
		vals = c.evalCommaOk(st, x.Rhs[0], len(x.Lhs))
	} else {
		for _, e := range x.Rhs {
			vals = append(vals, c.eval(st, e))
		}
	}
	if len(vals) != len(x.Lhs) {
		limitf("%s: assignment count mismatch (%d values for %d targets)", c.eng.posStr(x.Pos()), len(vals), len(x.Lhs))
	}
	for i, lhs := range x.Lhs {
		if id, ok := lhs.(*ast.Ident); ok {
			if id.Name == "_" {
				continue
			}
			if obj, ok := c.eng.info.Defs[id].(*types.Var); ok && obj != nil {
				c.declare(st, obj, c.coerce(st, vals[i], obj.Type()))
				continue
			}
		}
		c.assign(st, lhs, vals[i])
	}
}

// evalCommaOk: v, ok := m[k] / x.(T) ; or a multi-value call.
func (c *FuncCtx) evalCommaOk(st *State, e ast.Expr, n int) []*Val {
	switch x := ast.Unparen(e).(type) {
	case *ast.IndexExpr:
		m := c.eval(st, x.X)
		if mt, ok := under(m.T).(*types.Map); ok && n == 2 {
			k := c.coerce(st, c.eval(st, x.Index), mt.Key())
			in := mkSel(acc("dom_"+m.Sort, m.S), k.S)
			v := c.val(mkIte(in, mkSel(acc("val_"+m.Sort, m.S), k.S), c.eng.zero(mt.Elem())), mt.Elem())
			st.assume(c.eng.typeFacts(v.S, v.T))
			if !c.inSpec(st) && c.eng.spec.WfNonNil {
				// trusted (wf nonnil-elements): a key that is present holds no nil entry
				if p, ok := under(mt.Elem()).(*types.Pointer); ok && c.eng.isHeapStruct(p.Elem()) {
					st.assume(mkImplies(in, app("<", "0", v.S)))
				}
			}
			return []*Val{v, {T: tBool, S: in, Sort: "Bool"}}
		}
	case *ast.TypeAssertExpr:
		if n == 2 {
			v, ok := c.typeAssert(st, x)
			return []*Val{v, {T: tBool, S: ok, Sort: "Bool"}}
		}
	}
	return c.evalMulti(st, e)
}

// assign stores v into the location denoted by lhs.
func (c *FuncCtx) assign(st *State, lhs ast.Expr, v *Val) {
	switch x := lhs.(type) {
	case *ast.ParenExpr:
		c.assign(st, x.X, v)
	case *ast.Ident:
		if x.Name == "_" {
			return
		}
		obj, _ := c.eng.info.Uses[x].(*types.Var)
		if obj == nil {
			obj, _ = c.eng.info.Defs[x].(*types.Var)
		}
		if obj == nil {
			limitf("%s: assignment to unresolved %q", c.eng.posStr(x.Pos()), x.Name)
		}
		if _, ok := st.vars[obj]; !ok {
			limitf("%s: assignment to %q which is not a local variable", c.eng.posStr(x.Pos()), x.Name)
		}
		nv := c.coerce(st, v, obj.Type())
		if c.heapLocals[obj] {
			c.storeStruct(st, st.vars[obj].S, nv)
			return
		}
		st.vars[obj] = c.share(st, nv, obj.Name())
	case *ast.SelectorExpr:
		base := c.evalLvalBase(st, x.X)
		obj, path, _ := types.LookupFieldOrMethod(base.T, true, c.eng.pkg.Types, x.Sel.Name)
		fv, ok := obj.(*types.Var)
		if !ok {
			limitf("%s: assignment to non-field %s", c.eng.posStr(x.Pos()), x.Sel.Name)
		}
		cur := base
		for _, idx := range path[:len(path)-1] {
			cur = c.fieldStep(st, cur, idx, x.Pos())
		}
		nv := c.coerce(st, v, fv.Type())
		if p, ok := under(cur.T).(*types.Pointer); ok && c.eng.isHeapStruct(p.Elem()) {
			c.safe(st, "nil", x.Pos(), mkNot(mkEq(cur.S, "0")), "nil dereference (write "+structName(p.Elem())+"."+fv.Name()+")")
			k := heapKey(structName(p.Elem()), fv.Name())
			arr := c.heapArr(st, structName(p.Elem()), fv.Name(), fv.Type())
			st.heap[k] = c.shareTerm(st, mkStore(arr, cur.S, nv.S), fmt.Sprintf("(Array Int %s)", c.eng.sortOf(fv.Type())), "H_"+structName(p.Elem())+"_"+fv.Name())
			return
		}
		if len(path) != 1 {
			limitf("%s: write through embedded struct value", c.eng.posStr(x.Pos()))
		}
		// struct value: functional update, then write the struct back
		stt, ok := under(cur.T).(*types.Struct)
		if !ok {
			limitf("%s: field write on %s", c.eng.posStr(x.Pos()), cur.T)
		}
		var fs []string
		for i := 0; i < stt.NumFields(); i++ {
			if i == path[0] {
				fs = append(fs, nv.S)
			} else {
				fs = append(fs, c.fieldOf(cur, i))
			}
		}
		upd := &Val{T: cur.T, S: "(mk_" + cur.Sort + " " + strings.Join(fs, " ") + ")", Sort: cur.Sort}
		c.assign(st, x.X, upd)
	case *ast.IndexExpr:
		base := c.eval(st, x.X)
		idx := c.eval(st, x.Index)
		switch u := under(base.T).(type) {
		case *types.Slice:
			c.checkOwnedSlice(st, x.X)
			idx = c.nameIndex(st, idx)
			s := base.Sort
			l := acc("len_"+s, base.S)
			c.safe(st, "index", x.Pos(), mkAnd(app("<=", "0", idx.S), app("<", idx.S, l)), "slice index in range (write)")
			nv := c.coerce(st, v, u.Elem())
			upd := &Val{T: base.T, S: app("mk_"+s, mkStore(acc("base_"+s, base.S), mkAdd(acc("off_"+s, base.S), idx.S), nv.S), acc("off_"+s, base.S), l, acc("nil_"+s, base.S)), Sort: s}
			c.assign(st, x.X, upd)
		case *types.Map:
			s := base.Sort
			c.safe(st, "nilmap", x.Pos(), mkNot(acc("nil_"+s, base.S)), "assignment to entry in nil map")
			k := c.coerce(st, idx, u.Key())
			nv := c.coerce(st, v, u.Elem())
			upd := &Val{T: base.T, S: app("mk_"+s, mkStore(acc("dom_"+s, base.S), k.S, tTrue), mkStore(acc("val_"+s, base.S), k.S, nv.S), tFalse), Sort: s}
			c.checkOwnedMap(st, x.X)
			c.assign(st, x.X, upd)
		default:
			limitf("%s: index assignment on %s", c.eng.posStr(x.Pos()), base.T)
		}
	case *ast.StarExpr:
		limitf("%s: assignment through pointer dereference", c.eng.posStr(x.Pos()))
	default:
		limitf("%s: unsupported assignment target %T", c.eng.posStr(lhs.Pos()), lhs)
	}
}

// evalLvalBase evaluates the container of a field write; an address-taken
// local yields its reference so that the write goes to the heap.
func (c *FuncCtx) evalLvalBase(st *State, e ast.Expr) *Val {
	if id, ok := ast.Unparen(e).(*ast.Ident); ok {
		if o, ok := c.eng.info.Uses[id].(*types.Var); ok && c.heapLocals[o] {
			v := st.vars[o]
			return &Val{T: types.NewPointer(o.Type()), S: v.S, Sort: "Int"}
		}
	}
	return c.eval(st, e)
}

// Slices and maps are modelled as values. Element writes are therefore only
// accepted where no second name for the same backing store can observe them:
// the container is a local variable of this function (not a parameter), or a
// field reached through a pointer (the write goes to the heap cell).
func (c *FuncCtx) checkOwnedSlice(st *State, e ast.Expr) {
	switch x := ast.Unparen(e).(type) {
	case *ast.Ident:
		if o, ok := c.eng.info.Uses[x].(*types.Var); ok {
			if c.isParam(o) {
				limitf("%s: element write through slice parameter %q (aliasing not modelled)", c.eng.posStr(e.Pos()), x.Name)
			}
			if c.sliceAlias[o] {
				limitf("%s: element write through %q, which may share its backing array with another slice (aliasing not modelled)", c.eng.posStr(e.Pos()), x.Name)
			}
			return
		}
	case *ast.IndexExpr:
		c.checkOwnedSlice(st, x.X)
		return
	case *ast.SelectorExpr:
		return
	}
	limitf("%s: element write to a slice that is not a local variable or field", c.eng.posStr(e.Pos()))
}

func (c *FuncCtx) checkOwnedMap(st *State, e ast.Expr) {
	switch x := ast.Unparen(e).(type) {
	case *ast.Ident:
		if o, ok := c.eng.info.Uses[x].(*types.Var); ok {
			if c.isParam(o) {
				limitf("%s: map write through parameter %q (aliasing not modelled)", c.eng.posStr(e.Pos()), x.Name)
			}
			if !c.mapOwned[o] {
				limitf("%s: map %q is written but does not originate from make/literal in this function (aliasing not modelled)", c.eng.posStr(e.Pos()), x.Name)
			}
			return
		}
	case *ast.SelectorExpr:
		return
	case *ast.IndexExpr:
		c.checkOwnedMap(st, x.X)
		return
	}
	limitf("%s: write to a map that is not a local variable or field", c.eng.posStr(e.Pos()))
}

func (c *FuncCtx) isParam(o *types.Var) bool {
	return c.params[o]
}

// ------------------------------------------------------------- return ---

func (c *FuncCtx) execReturn(st *State, x *ast.ReturnStmt) []outcome {
	fr := st.frame
	if fr == nil {
		limitf("return outside function frame")
	}
	if fr.closure {
		// return inside an iterator closure body = continue
		return []outcome{{oContinue, st}}
	}
	if len(x.Results) == 0 {
		return []outcome{{oReturn, st}}
	}
	var vals []*Val
	if len(x.Results) == 1 && len(fr.results) > 1 {
		vals = c.evalMulti(st, x.Results[0])
	} else {
		for _, e := range x.Results {
			vals = append(vals, c.eval(st, e))
		}
	}
	for i, rv := range fr.results {
		st.vars[rv] = c.coerce(st, vals[i], rv.Type())
	}
	return []outcome{{oReturn, st}}
}

// ----------------------------------------------------------------- if ---

func (c *FuncCtx) execIf(st *State, x *ast.IfStmt) []outcome {
	if x.Init != nil {
		outs := c.execStmt(st, x.Init)
		if len(outs) != 1 || outs[0].kind != oNext {
			limitf("%s: unsupported if-init", c.eng.posStr(x.Pos()))
		}
		st = outs[0].st
	}
	cond := c.eval(st, x.Cond)
	var outs []outcome
	if cond.S != tFalse {
		s1 := st.clone()
		s1.assume(cond.S)
		outs = append(outs, c.execBlock(s1, x.Body.List)...)
	}
	if cond.S != tTrue {
		s2 := st.clone()
		s2.assume(mkNot(cond.S))
		if x.Else != nil {
			outs = append(outs, c.execStmt(s2, x.Else)...)
		} else {
			outs = append(outs, outcome{oNext, s2})
		}
	}
	return c.mergeNext(outs)
}

// ------------------------------------------------------------- switch ---

func (c *FuncCtx) execSwitch(st *State, x *ast.SwitchStmt) []outcome {
	if x.Init != nil {
		outs := c.execStmt(st, x.Init)
		st = outs[0].st
	}
	var tag *Val
	if x.Tag != nil {
		tag = c.eval(st, x.Tag)
	}
	var outs []outcome
	var negs []string
	var deflt *ast.CaseClause
	for _, cl := range x.Body.List {
		cc := cl.(*ast.CaseClause)
		if cc.List == nil {
			deflt = cc
			continue
		}
		var conds []string
		s1 := st.clone()
		for _, n := range negs {
			s1.assume(n)
		}
		for _, e := range cc.List {
			v := c.eval(s1, e)
			if tag != nil {
				conds = append(conds, c.binop(s1, token.EQL, tag, v, e.Pos(), nil).S)
			} else {
				conds = append(conds, v.S)
			}
		}
		cond := mkOr(conds...)
		s1.assume(cond)
		for _, s := range cc.Body {
			if b, ok := s.(*ast.BranchStmt); ok && b.Tok == token.FALLTHROUGH {
				limitf("%s: fallthrough", c.eng.posStr(b.Pos()))
			}
		}
		outs = append(outs, c.switchBody(s1, cc.Body)...)
		negs = append(negs, mkNot(cond))
	}
	s2 := st.clone()
	for _, n := range negs {
		s2.assume(n)
	}
	if deflt != nil {
		outs = append(outs, c.switchBody(s2, deflt.Body)...)
	} else {
		outs = append(outs, outcome{oNext, s2})
	}
	return c.mergeNext(outs)
}

// switchBody: a break inside a switch leaves the switch.
func (c *FuncCtx) switchBody(st *State, body []ast.Stmt) []outcome {
	var outs []outcome
	for _, o := range c.execBlock(st, body) {
		if o.kind == oBreak {
			o.kind = oNext
		}
		outs = append(outs, o)
	}
	return outs
}

func (c *FuncCtx) execTypeSwitch(st *State, x *ast.TypeSwitchStmt) []outcome {
	if x.Init != nil {
		outs := c.execStmt(st, x.Init)
		st = outs[0].st
	}
	var ta *ast.TypeAssertExpr
	switch a := x.Assign.(type) {
	case *ast.AssignStmt:
		ta = ast.Unparen(a.Rhs[0]).(*ast.TypeAssertExpr)
	case *ast.ExprStmt:
		ta = ast.Unparen(a.X).(*ast.TypeAssertExpr)
	}
	v := c.eval(st, ta.X)
	if v.Sort != "Iface" {
		limitf("%s: type switch on non-interface", c.eng.posStr(x.Pos()))
	}
	var outs []outcome
	var negs []string
	var deflt *ast.CaseClause
	for _, cl := range x.Body.List {
		cc := cl.(*ast.CaseClause)
		if cc.List == nil {
			deflt = cc
			continue
		}
		s1 := st.clone()
		for _, n := range negs {
			s1.assume(n)
		}
		var conds []string
		var bindVal *Val
		for _, te := range cc.List {
			if id, ok := te.(*ast.Ident); ok && id.Name == "nil" {
				conds = append(conds, mkEq(app("tag_Iface", v.S), "0"))
				continue
			}
			t := c.typeOf(te)
			av, ok := c.assertTo(s1, v, t)
			conds = append(conds, ok)
			if len(cc.List) == 1 {
				bindVal = av
			}
		}
		cond := mkOr(conds...)
		s1.assume(cond)
		if obj, ok := c.eng.info.Implicits[cc].(*types.Var); ok {
			if bindVal != nil {
				s1.vars[obj] = bindVal
			} else {
				s1.vars[obj] = v
			}
		}
		outs = append(outs, c.switchBody(s1, cc.Body)...)
		negs = append(negs, mkNot(cond))
	}
	s2 := st.clone()
	for _, n := range negs {
		s2.assume(n)
	}
	if deflt != nil {
		if obj, ok := c.eng.info.Implicits[deflt].(*types.Var); ok {
			s2.vars[obj] = v
		}
		outs = append(outs, c.switchBody(s2, deflt.Body)...)
	} else {
		outs = append(outs, outcome{oNext, s2})
	}
	return c.mergeNext(outs)
}

// -------------------------------------------------------------- loops ---

// loopSpec gathers the invariant and variant clauses of loop ordinal n.
func (c *FuncCtx) loopSpec(n int) (inv, dec []*Clause) {
	if c.contract == nil {
		return nil, nil
	}
	return c.contract.loopClauses("invariant", n), c.contract.loopClauses("decreases", n)
}

// evalSpecAt evaluates a spec expression in the current state with names
// resolved in the scope at pos.
func (c *FuncCtx) evalSpecAt(st *State, e ast.Expr, pos token.Pos, extra map[string]*Val) *Val {
	saved := st.bound
	nb := map[string]*Val{}
	for k, v := range saved {
		nb[k] = v
	}
	for k, v := range extra {
		nb[k] = v
	}
	nb["$spec"] = &Val{S: "1"}
	nb["$pos"] = &Val{S: strconv.Itoa(int(pos))}
	st.bound = nb
	v := c.eval(st, e)
	st.bound = saved
	return v
}

type loopInfo struct {
	entry   *State // state on entry to the loop (before the havoc)
	ord     int
	node    ast.Node
	pos     token.Pos
	extra   map[string]*Val // ghost names visible to the invariant (idx_N, ...)
	modVars []*types.Var
	modHeap *modset
}

func (c *FuncCtx) checkInv(st *State, li *loopInfo, inv []*Clause, kind string) {
	if kind == "init" && li.entry == nil {
		li.entry = st.clone()
	}
	saved := c.loopEntry
	c.loopEntry = li.entry
	defer func() { c.loopEntry = saved }()
	for i, cl := range inv {
		v := c.evalSpecAt(st, cl.Expr, li.pos, li.extra)
		c.oblige(st, kind, fmt.Sprintf("loop%d.%s%d", li.ord, kind, i+1), li.pos, v.S, cl.Tags, "invariant "+cl.Text)
	}
}

func (c *FuncCtx) assumeInv(st *State, li *loopInfo, inv []*Clause) {
	saved := c.loopEntry
	c.loopEntry = li.entry
	defer func() { c.loopEntry = saved }()
	for _, cl := range inv {
		v := c.evalSpecAt(st, cl.Expr, li.pos, li.extra)
		st.assume(v.forAssume())
	}
	// vacuity guard: the loop head (invariants assumed) must be reachable
	if !c.coveredLoops[li.ord] && c.contract != nil {
		if c.coveredLoops == nil {
			c.coveredLoops = map[int]bool{}
		}
		c.coveredLoops[li.ord] = true
		c.obls = append(c.obls, &Obligation{Fn: c.key, Name: fmt.Sprintf("%s.cover.loop%d", c.key, li.ord), Kind: "cover", Pos: c.eng.posStr(li.pos), Tags: c.props, PC: st.pc, Goal: tFalse, ctx: c, Text: "loop head is reachable with the invariants assumed"})
	}
}

func (c *FuncCtx) havocLoop(st *State, li *loopInfo) {
	c.havocFrontiers(st)
	for _, o := range li.modVars {
		old, ok := st.vars[o]
		if !ok {
			continue
		}
		if c.heapLocals[o] {
			continue // contents are havocked through the heap keys below
		}
		if sl, ok := under(o.Type()).(*types.Slice); ok && li.modHeap != nil && !li.modHeap.whole[o] {
			// only elements are written: offset, length and nil-ness survive
			nb := c.fresh(o.Name(), fmt.Sprintf("(Array Int %s)", c.eng.sortOf(sl.Elem())))
			s := old.Sort
			st.vars[o] = &Val{T: o.Type(), S: app("mk_"+s, nb, acc("off_"+s, old.S), acc("len_"+s, old.S), acc("nil_"+s, old.S)), Sort: s}
			continue
		}
		nv := c.fresh(o.Name(), old.Sort)
		st.vars[o] = &Val{T: o.Type(), S: nv, Sort: old.Sort}
		st.assume(c.eng.typeFacts(nv, o.Type()))
	}
	if li.modHeap != nil {
		for _, k := range sortedKeys(li.modHeap.fields) {
			c.havocKey(st, k, li.modHeap.fields[k])
		}
		// fields written only through loop-invariant pointer variables: only
		// those cells are forgotten
		modified := map[*types.Var]bool{}
		for _, o := range li.modVars {
			modified[o] = true
		}
		for _, k := range sortedKeys(li.modHeap.cells) {
			if _, whole := li.modHeap.fields[k]; whole {
				continue
			}
			ft := li.modHeap.ctypes[k]
			wholeNeeded := false
			var refs []string
			cvars := make([]*types.Var, 0, len(li.modHeap.cells[k]))
			for v := range li.modHeap.cells[k] {
				cvars = append(cvars, v)
			}
			sort.Slice(cvars, func(i, j int) bool { return cvars[i].Pos() < cvars[j].Pos() })
			for _, v := range cvars {
				pv, ok := st.vars[v]
				if !ok || (modified[v] && !c.heapLocals[v]) {
					wholeNeeded = true
					break
				}
				// for an address-taken local pv.S is its (fixed) reference
				refs = append(refs, pv.S)
			}
			if wholeNeeded {
				c.havocKey(st, k, ft)
				continue
			}
			sort.Strings(refs)
			parts := strings.SplitN(k, ".", 2)
			arr := c.heapArr(st, parts[0], parts[1], ft)
			for _, r := range refs {
				nv := c.fresh("hv_"+parts[0]+"_"+parts[1], c.eng.sortOf(ft))
				arr = mkStore(arr, r, nv)
				st.assume(c.eng.typeFacts(nv, ft))
			}
			st.heap[k] = c.shareTerm(st, arr, fmt.Sprintf("(Array Int %s)", c.eng.sortOf(ft)), "H_"+parts[0]+"_"+parts[1])
		}
		for _, f := range sortedKeys(li.modHeap.traces) {
			c.traceHavoc(st, f)
		}
	}
}

// variantTerms evaluates the decreases clauses (lexicographic tuple).
func (c *FuncCtx) variantTerms(st *State, li *loopInfo, dec []*Clause) []string {
	var out []string
	for _, cl := range dec {
		out = append(out, c.evalSpecAt(st, cl.Expr, li.pos, li.extra).S)
	}
	return out
}

func lexLess(a, b []string) string {
	// a < b lexicographically, each component bounded below by 0
	if len(a) == 0 {
		return tFalse
	}
	head := mkAnd(app("<", a[0], b[0]), app("<=", "0", b[0]))
	if len(a) == 1 {
		return head
	}
	return mkOr(head, mkAnd(mkEq(a[0], b[0]), lexLess(a[1:], b[1:])))
}

// loopBody runs one arbitrary iteration from the havocked state and returns
// the outcomes that leave the loop.
func (c *FuncCtx) finishIteration(st *State, li *loopInfo, inv, dec []*Clause, v0 []string, post func(*State) *State) {
	if post != nil {
		st = post(st)
		if st == nil || st.dead {
			return
		}
	}
	c.checkInv(st, li, inv, "step")
	if len(dec) > 0 {
		v1 := c.variantTerms(st, li, dec)
		c.oblige(st, "decr", fmt.Sprintf("loop%d.decr", li.ord), li.pos, lexLess(v1, v0), nil, "loop variant decreases")
	}
}

func (c *FuncCtx) execFor(st *State, x *ast.ForStmt) []outcome {
	if x.Init != nil {
		outs := c.execStmt(st, x.Init)
		st = outs[0].st
	}
	li := c.newLoopInfo(x, x.Pos())
	inv, dec := c.loopSpec(li.ord)
	// a canonical index loop whose body leaves i alone terminates like the
	// range loop it stands for: E - i is its variant unless the contract gives one
	canon := canonicalIndexVar(c, x)
	if canon != nil && assignsVar(c, x.Body, canon) {
		canon = nil
	}
	if canon != nil && len(dec) == 0 && c.contract != nil {
		cond := x.Cond.(*ast.BinaryExpr)
		dec = []*Clause{{Kind: "decreases", Loop: li.ord, Text: "(implicit) bound - index", Expr: &ast.BinaryExpr{X: cond.Y, Op: token.SUB, Y: cond.X}}}
	}
	c.needVariant(li, dec)
	// ghost iteration counter cnt_N
	cntName := fmt.Sprintf("cnt_%d", li.ord)
	li.extra[cntName] = &Val{T: tInt, S: "0", Sort: "Int"}
	// a canonical index loop  for i := 0; i < E; i++  also answers to the
	// ghost name idx_N of the equivalent range loop (so that a contract survives
	// the rewriting of one into the other)
	idxName := fmt.Sprintf("idx_%d", li.ord)
	idxVar := canonicalIndexVar(c, x)
	if idxVar != nil {
		if v, ok := st.vars[idxVar]; ok {
			li.extra[idxName] = v
		}
	}
	c.checkInv(st, li, inv, "init")
	h := st.clone()
	c.havocLoop(h, li)
	cnt := c.fresh(cntName, "Int")
	h.assume(app("<=", "0", cnt))
	li.extra[cntName] = &Val{T: tInt, S: cnt, Sort: "Int"}
	if idxVar != nil {
		if v, ok := h.vars[idxVar]; ok {
			li.extra[idxName] = v
			if canon != nil {
				h.assume(app("<=", "0", v.S))
			}
		}
	}
	c.assumeInv(h, li, inv)
	v0 := c.variantTerms(h, li, dec)
	var outs []outcome
	var cond *Val
	if x.Cond != nil {
		cond = c.eval(h, x.Cond)
	} else {
		cond = &Val{T: tBool, S: tTrue, Sort: "Bool"}
	}
	if cond.S != tFalse {
		b := h.clone()
		b.assume(cond.S)
		c.ghostStack = append(c.ghostStack, li.extra)
		bodyOuts := c.execBlock(b, x.Body.List)
		c.ghostStack = c.ghostStack[:len(c.ghostStack)-1]
		liNext := *li
		liNext.extra = map[string]*Val{}
		for kk, vv := range li.extra {
			liNext.extra[kk] = vv
		}
		liNext.extra[cntName] = &Val{T: tInt, S: mkAdd(cnt, "1"), Sort: "Int"}
		for _, o := range bodyOuts {
			switch o.kind {
			case oNext, oContinue:
				c.finishIteration(o.st, &liNext, inv, dec, v0, func(s *State) *State {
					if x.Post != nil {
						po := c.execStmt(s, x.Post)
						s = po[0].st
					}
					if idxVar != nil && s != nil {
						if v, ok := s.vars[idxVar]; ok {
							liNext.extra[idxName] = v
						}
					}
					return s
				})
			case oBreak:
				outs = append(outs, outcome{oNext, o.st})
			case oReturn:
				outs = append(outs, o)
			}
		}
	}
	if cond.S != tTrue {
		e := h.clone()
		e.assume(mkNot(cond.S))
		outs = append(outs, outcome{oNext, e})
	}
	return c.mergeNext(outs)
}

// assignsVar: does the block assign v (other than by declaring it)?
func assignsVar(c *FuncCtx, b *ast.BlockStmt, v *types.Var) bool {
	found := false
	ast.Inspect(b, func(n ast.Node) bool {
		switch s := n.(type) {
		case *ast.AssignStmt:
			for _, l := range s.Lhs {
				if id, ok := l.(*ast.Ident); ok && c.eng.info.Uses[id] == v {
					found = true
				}
			}
		case *ast.IncDecStmt:
			if id, ok := s.X.(*ast.Ident); ok && c.eng.info.Uses[id] == v {
				found = true
			}
		case *ast.UnaryExpr:
			if s.Op == token.AND {
				if id, ok := s.X.(*ast.Ident); ok && c.eng.info.Uses[id] == v {
					found = true
				}
			}
		}
		return true
	})
	return found
}

// canonicalIndexVar: the variable i of a loop of the shape
// for i := 0; i < E; i++ (nil for any other loop).
func canonicalIndexVar(c *FuncCtx, x *ast.ForStmt) *types.Var {
	as, ok := x.Init.(*ast.AssignStmt)
	if !ok || as.Tok != token.DEFINE || len(as.Lhs) != 1 || len(as.Rhs) != 1 {
		return nil
	}
	id, ok := as.Lhs[0].(*ast.Ident)
	if !ok {
		return nil
	}
	if lit, ok := as.Rhs[0].(*ast.BasicLit); !ok || lit.Value != "0" {
		return nil
	}
	cond, ok := x.Cond.(*ast.BinaryExpr)
	if !ok || cond.Op != token.LSS {
		return nil
	}
	if ci, ok := cond.X.(*ast.Ident); !ok || ci.Name != id.Name {
		return nil
	}
	inc, ok := x.Post.(*ast.IncDecStmt)
	if !ok || inc.Tok != token.INC {
		return nil
	}
	if pi, ok := inc.X.(*ast.Ident); !ok || pi.Name != id.Name {
		return nil
	}
	v, _ := c.eng.info.Defs[id].(*types.Var)
	return v
}

func (c *FuncCtx) needVariant(li *loopInfo, dec []*Clause) {
	if len(dec) == 0 && c.contract != nil && !c.contract.Assumed {
		// termination is part of C04/C14: a loop without a variant is reported,
		// not silently accepted
		c.noVariant = append(c.noVariant, fmt.Sprintf("loop%d", li.ord))
	}
}

func (c *FuncCtx) newLoopInfo(n ast.Node, pos token.Pos) *loopInfo {
	li := &loopInfo{ord: c.loopOrd[n], node: n, pos: pos, extra: map[string]*Val{}}
	// ghost names of the enclosing loops (idx_N, cnt_N, ...) stay visible
	for _, g := range c.ghostStack {
		for k, v := range g {
			li.extra[k] = v
		}
	}
	// names bound by "let" (pre-state values) are visible to invariants;
	// parameter names denote the current values there
	if c.contract != nil {
		for _, cl := range c.contract.clauses("let") {
			for _, nm := range splitTop(cl.Name, ',') {
				if v, ok := c.specEnv[nm]; ok {
					li.extra[nm] = v
				}
			}
		}
	}
	li.modVars, li.modHeap = c.eng.loopMods(c, n)
	return li
}

// execRange handles range over strings, slices and integers-free forms. The
// loop has a hidden position variable, visible to invariants as idx_<N>
// (slice index, or byte offset for strings).
func (c *FuncCtx) execRange(st *State, x *ast.RangeStmt) []outcome {
	coll := c.eval(st, x.X)
	li := c.newLoopInfo(x, x.Pos())
	inv, _ := c.loopSpec(li.ord)
	idxName := fmt.Sprintf("idx_%d", li.ord)
	cntName := fmt.Sprintf("cnt_%d", li.ord)
	isStr := coll.Sort == "String"
	isSlice := strings.HasPrefix(coll.Sort, "Sl_")
	if !isStr && !isSlice {
		if strings.HasPrefix(coll.Sort, "Mp_") {
			return c.execRangeMap(st, x, coll, li, inv, nil)
		}
		limitf("%s: range over %s", c.eng.posStr(x.Pos()), coll.T)
	}
	var length string
	if isStr {
		length = app("str.len", coll.S)
		// rune sequence of the string: runeOff(s)[n] is the byte offset of
		// rune n, runeSeq(s)[n] its value, nrunes(s) their number
		c.eng.declareUF("runeOff", "(declare-fun runeOff (String) (Array Int Int))")
		c.eng.declareUF("runeSeq", "(declare-fun runeSeq (String) (Array Int Int))")
		c.eng.declareUF("nrunes", "(declare-fun nrunes (String) Int)")
	} else {
		length = acc("len_"+coll.Sort, coll.S)
	}
	li.extra[fmt.Sprintf("coll_%d", li.ord)] = coll
	withPos := func(k, cnt string) *loopInfo {
		li2 := *li
		li2.extra = map[string]*Val{}
		for kk, vv := range li.extra {
			li2.extra[kk] = vv
		}
		li2.extra[idxName] = &Val{T: tInt, S: k, Sort: "Int"}
		li2.extra[cntName] = &Val{T: tInt, S: cnt, Sort: "Int"}
		return &li2
	}
	// iterate runs the body once from state b at position (k, cnt) and hands
	// every state that reaches the end of the body to cont with the next position
	var outs []outcome
	iterate := func(b *State, k, cnt string, cont func(s *State, nk, ncnt string)) {
		var next, ncnt string
		bindKV := func(key, val *Val) {
			if x.Key != nil {
				c.bindRangeVar(b, x.Key, key, x.Tok)
			}
			if x.Value != nil {
				c.bindRangeVar(b, x.Value, val, x.Tok)
			}
		}
		if isStr {
			r, w := c.decodeRune(b, app("str.substr", coll.S, k, mkSub(length, k)))
			bindKV(&Val{T: tInt, S: k, Sort: "Int"}, r)
			next = mkAdd(k, w.S)
			ncnt = mkAdd(cnt, "1")
			b.assume(mkEq(mkSel(app("runeOff", coll.S), cnt), k))
			b.assume(mkEq(mkSel(app("runeSeq", coll.S), cnt), r.S))
			b.assume(app("<", cnt, app("nrunes", coll.S)))
		} else {
			el := c.val(mkSel(acc("base_"+coll.Sort, coll.S), mkAdd(acc("off_"+coll.Sort, coll.S), k)), under(coll.T).(*types.Slice).Elem())
			b.assume(c.eng.typeFacts(el.S, el.T))
			c.wfElem(b, el)
			bindKV(&Val{T: tInt, S: k, Sort: "Int"}, el)
			next = mkAdd(k, "1")
			ncnt = next
		}
		c.ghostStack = append(c.ghostStack, withPos(k, cnt).extra)
		bodyOuts := c.execBlock(b, x.Body.List)
		c.ghostStack = c.ghostStack[:len(c.ghostStack)-1]
		for _, o := range bodyOuts {
			switch o.kind {
			case oNext, oContinue:
				cont(o.st, next, ncnt)
			case oBreak:
				outs = append(outs, outcome{oNext, o.st})
			case oReturn:
				outs = append(outs, o)
			}
		}
	}
	exitFacts := func(e *State, k, cnt string) {
		e.assume(mkEq(k, length)) // 0 <= k <= length and not k < length
		if isStr {
			e.assume(mkEq(app("nrunes", coll.S), cnt))
		}
	}
	// generic: the invariant-based treatment of the loop from position (k0, cnt0)
	generic := func(st *State, k0, cnt0 string) {
		if li.entry == nil {
			li.entry = st.clone()
		}
		c.checkInv(st, withPos(k0, cnt0), inv, "init")
		h := st.clone()
		c.havocLoop(h, li)
		k := c.fresh(idxName, "Int")
		h.assume(mkAnd(app("<=", k0, k), app("<=", k, length)))
		cnt := k
		if isStr {
			cnt = c.fresh(cntName, "Int")
			h.assume(mkAnd(app("<=", cnt0, cnt), app("<=", cnt, k)))
			h.assume(mkEq(mkEq(cnt, "0"), mkEq(k, "0")))
		}
		c.assumeInv(h, withPos(k, cnt), inv)
		e := h.clone()
		exitFacts(e, k, cnt)
		outs = append(outs, outcome{oNext, e})
		b := h.clone()
		b.assume(app("<", k, length))
		iterate(b, k, cnt, func(s *State, nk, ncnt string) {
			c.checkInv(s, withPos(nk, ncnt), inv, "step")
		})
	}
	if c.contract != nil && c.contract.peels(li.ord) {
		// peel the first iteration: executions with zero or one iteration are
		// followed exactly, the invariant describes the rest
		z := st.clone()
		z.assume(mkEq(length, "0"))
		exitFacts(z, "0", "0")
		outs = append(outs, outcome{oNext, z})
		b := st.clone()
		b.assume(app("<", "0", length))
		iterate(b, "0", "0", func(s *State, nk, ncnt string) {
			e := s.clone()
			exitFacts(e, nk, ncnt)
			outs = append(outs, outcome{oNext, e})
			m := s.clone()
			m.assume(app("<", nk, length))
			generic(m, nk, ncnt)
		})
		return c.mergeNext(outs)
	}
	generic(st, "0", "0")
	return c.mergeNext(outs)
}

func (c *FuncCtx) bindRangeVar(st *State, e ast.Expr, v *Val, tok token.Token) {
	id, ok := e.(*ast.Ident)
	if !ok {
		limitf("%s: range variable must be an identifier", c.eng.posStr(e.Pos()))
	}
	if id.Name == "_" {
		return
	}
	if tok == token.DEFINE {
		if obj, ok := c.eng.info.Defs[id].(*types.Var); ok && obj != nil {
			st.vars[obj] = c.coerce(st, v, obj.Type())
			return
		}
	}
	c.assign(st, e, v)
}

// decodeRune applies the assumed contract of utf8.DecodeRuneInString.
func (c *FuncCtx) decodeRune(st *State, s string) (*Val, *Val) {
	con := c.eng.spec.Contracts["utf8.DecodeRuneInString"]
	if con == nil {
		limitf("range over string needs the assumed contract utf8.DecodeRuneInString")
	}
	sig := types.NewSignatureType(nil, nil, nil,
		types.NewTuple(types.NewVar(token.NoPos, nil, "s", tString)),
		types.NewTuple(types.NewVar(token.NoPos, nil, "r", tRune), types.NewVar(token.NoPos, nil, "n", tInt)), false)
	rs := c.applyContract(st, con, sig, nil, []*Val{{T: tString, S: s, Sort: "String"}}, token.NoPos, "utf8.DecodeRuneInString")
	return rs[0], rs[1]
}

// loopExits checks the "loop N exit: E" clauses: E is asserted (then assumed)
// in every state that leaves the loop, whether the loop ran out or was left by
// a break - an invariant alone says nothing about the latter.
func (c *FuncCtx) loopExits(n ast.Node, outs []outcome) []outcome {
	if c.contract == nil || c.inlineDepth > 0 {
		return outs
	}
	ord := c.loopOrd[n]
	cls := c.contract.loopClauses("exit", ord)
	if len(cls) == 0 {
		return outs
	}
	for _, o := range outs {
		if o.kind != oNext || o.st.dead {
			continue
		}
		for i, cl := range cls {
			v := c.evalSpecAt(o.st, cl.Expr, n.End(), c.ghostEnv())
			c.oblige(o.st, "assert", fmt.Sprintf("loop%d.exit%d", ord, i+1), n.Pos(), v.S, cl.Tags, "loop exit "+cl.Text)
			if !cl.CheckOnly {
				o.st.assume(v.forAssume())
			}
		}
	}
	return outs
}
