package main

import (
	"fmt"
	"go/ast"
	"go/constant"
	"go/token"
	"go/types"
	"math/big"
	"sort"
	"strconv"
	"strings"
)

func (c *FuncCtx) val(term string, t types.Type) *Val {
	return &Val{T: t, S: term, Sort: c.eng.sortOf(t)}
}

var (
	tInt    = types.Typ[types.Int]
	tBool   = types.Typ[types.Bool]
	tString = types.Typ[types.String]
	tRune   = types.Typ[types.Rune]
	tByte   = types.Typ[types.Byte]
)

func isUntyped(t types.Type) bool {
	b, ok := t.(*types.Basic)
	return ok && b.Info()&types.IsUntyped != 0
}

func (c *FuncCtx) typeOf(e ast.Expr) types.Type {
	if tv, ok := c.eng.info.Types[e]; ok {
		return tv.Type
	}
	return nil
}

func constToVal(c *FuncCtx, cv constant.Value, t types.Type) *Val {
	switch cv.Kind() {
	case constant.Bool:
		if constant.BoolVal(cv) {
			return &Val{T: tBool, S: tTrue, Sort: "Bool"}
		}
		return &Val{T: tBool, S: tFalse, Sort: "Bool"}
	case constant.String:
		tt := t
		if tt == nil || isUntyped(tt) {
			tt = tString
		}
		return &Val{T: tt, S: smtString(constant.StringVal(cv)), Sort: "String"}
	case constant.Int:
		tt := t
		unt := false
		if tt == nil || isUntyped(tt) {
			tt = tInt
			unt = true
		}
		if b, ok := under(tt).(*types.Basic); ok && b.Info()&types.IsFloat != 0 {
			f, _ := constant.Float64Val(cv)
			return &Val{T: tt, S: realLit(f), Sort: "Real"}
		}
		bi, ok := new(big.Int).SetString(cv.ExactString(), 10)
		if !ok {
			limitf("bad int constant %s", cv)
		}
		return &Val{T: tt, S: mkBig(bi), Sort: "Int", Untyped: unt}
	case constant.Float:
		f, _ := constant.Float64Val(cv)
		tt := t
		if tt == nil || isUntyped(tt) {
			tt = types.Typ[types.Float64]
		}
		return &Val{T: tt, S: realLit(f), Sort: "Real"}
	}
	limitf("unsupported constant %s", cv)
	return nil
}

// floatInf is larger than every finite float64.
var floatInf = "1" + strings.Repeat("0", 310) + ".0"

func realLit(f float64) string {
	s := strconv.FormatFloat(f, 'f', -1, 64)
	if !strings.Contains(s, ".") {
		s += ".0"
	}
	if strings.HasPrefix(s, "-") {
		return "(- " + s[1:] + ")"
	}
	return s
}

// eval evaluates an expression to a single value.
func (c *FuncCtx) eval(st *State, e ast.Expr) *Val {
	vs := c.evalMulti(st, e)
	if len(vs) != 1 {
		limitf("%s: expected single value, got %d", c.eng.posStr(e.Pos()), len(vs))
	}
	return vs[0]
}

func (c *FuncCtx) evalMulti(st *State, e ast.Expr) []*Val {
	// constants known to the type checker (code expressions only)
	if tv, ok := c.eng.info.Types[e]; ok && tv.Value != nil {
		return []*Val{constToVal(c, tv.Value, tv.Type)}
	}
	switch x := e.(type) {
	case *ast.ParenExpr:
		return c.evalMulti(st, x.X)
	case *ast.BasicLit:
		return []*Val{c.evalLit(x)}
	case *ast.Ident:
		return []*Val{c.evalIdent(st, x)}
	case *ast.UnaryExpr:
		return []*Val{c.evalUnary(st, x)}
	case *ast.BinaryExpr:
		return []*Val{c.evalBinary(st, x)}
	case *ast.CallExpr:
		return c.evalCall(st, x)
	case *ast.SelectorExpr:
		return []*Val{c.evalSelector(st, x)}
	case *ast.IndexExpr:
		return []*Val{c.evalIndex(st, x)}
	case *ast.SliceExpr:
		return []*Val{c.evalSliceExpr(st, x)}
	case *ast.StarExpr:
		v := c.eval(st, x.X)
		return []*Val{c.deref(st, v, x.Pos())}
	case *ast.TypeAssertExpr:
		v, ok := c.typeAssert(st, x)
		c.safe(st, "typeassert", x.Pos(), ok, "type assertion holds")
		return []*Val{v}
	case *ast.CompositeLit:
		return []*Val{c.evalComposite(st, x, false)}
	case *ast.FuncLit:
		cl := c.fresh("closure", "Int")
		st.assume(app("<", "0", cl))
		return []*Val{{T: c.typeOf(x), S: cl, Sort: "Int", Closure: x}}
	}
	limitf("%s: unsupported expression %T", c.eng.posStr(e.Pos()), e)
	return nil
}

func (c *FuncCtx) evalLit(x *ast.BasicLit) *Val {
	switch x.Kind {
	case token.INT:
		bi, ok := new(big.Int).SetString(x.Value, 0)
		if !ok {
			limitf("bad int literal %s", x.Value)
		}
		return &Val{T: tInt, S: mkBig(bi), Sort: "Int", Untyped: true}
	case token.STRING:
		s, err := strconv.Unquote(x.Value)
		if err != nil {
			limitf("bad string literal %s", x.Value)
		}
		return &Val{T: tString, S: smtString(s), Sort: "String"}
	case token.CHAR:
		r, _, _, err := strconv.UnquoteChar(x.Value[1:len(x.Value)-1], '\'')
		if err != nil {
			limitf("bad char literal %s", x.Value)
		}
		return &Val{T: tRune, S: mkInt(int64(r)), Sort: "Int", Untyped: true}
	case token.FLOAT:
		f, _ := strconv.ParseFloat(x.Value, 64)
		return &Val{T: types.Typ[types.Float64], S: realLit(f), Sort: "Real"}
	}
	limitf("unsupported literal %s", x.Value)
	return nil
}

func (c *FuncCtx) evalIdent(st *State, id *ast.Ident) *Val {
	if v, ok := st.bound[id.Name]; ok {
		return v
	}
	switch id.Name {
	case "true":
		return &Val{T: tBool, S: tTrue, Sort: "Bool"}
	case "false":
		return &Val{T: tBool, S: tFalse, Sort: "Bool"}
	case "nil":
		return &Val{IsNil: true, S: "0", Sort: "Int"}
	case "_":
		limitf("blank identifier read")
	}
	var obj types.Object
	if o, ok := c.eng.info.Uses[id]; ok {
		obj = o
	} else if o, ok := c.eng.info.Defs[id]; ok && o != nil {
		obj = o
	} else {
		obj = c.lookupSpecName(st, id.Name)
		if obj == nil && c.renames != nil {
			if nn, ok := c.renames[id.Name]; ok {
				obj = c.lookupSpecName(st, nn)
			}
		}
	}
	if obj == nil {
		limitf("unresolved identifier %q", id.Name)
	}
	switch o := obj.(type) {
	case *types.Var:
		if v, ok := st.vars[o]; ok {
			if c.heapLocals[o] {
				// address-taken struct local: value is read out of the heap
				return c.loadStruct(st, v.S, o.Type())
			}
			return v
		}
		if o.Parent() == c.eng.pkg.Types.Scope() || (o.Pkg() != nil && o.Pkg() != c.eng.pkg.Types) {
			return c.globalVar(o)
		}
		limitf("variable %q not in scope here (%s)", id.Name, c.eng.posStr(id.Pos()))
	case *types.Const:
		return constToVal(c, o.Val(), o.Type())
	case *types.Nil:
		return &Val{IsNil: true, S: "0", Sort: "Int"}
	case *types.Func:
		// function value
		name := "fn_" + o.Name()
		c.declOnce(name, "Int")
		return &Val{T: o.Type(), S: name, Sort: "Int"}
	case *types.TypeName:
		limitf("type %q used as value", id.Name)
	}
	limitf("unsupported identifier %q (%T)", id.Name, obj)
	return nil
}

// globalVar: package-level variables (ours or imported) are opaque constants.
func (c *FuncCtx) globalVar(o *types.Var) *Val {
	pk := ""
	if o.Pkg() != nil {
		pk = o.Pkg().Name() + "_"
	}
	name := "G_" + pk + o.Name()
	srt := c.eng.sortOf(o.Type())
	c.declOnce(name, srt)
	return &Val{T: o.Type(), S: name, Sort: srt}
}

func (c *FuncCtx) lookupSpecName(st *State, name string) types.Object {
	// innermost scope at the spec position
	pos := st.specPos()
	if pos.IsValid() {
		sc := c.eng.pkg.Types.Scope().Innermost(pos)
		for s := sc; s != nil; s = s.Parent() {
			if o := s.Lookup(name); o != nil {
				if v, ok := o.(*types.Var); ok {
					if _, have := st.vars[v]; !have && s != c.eng.pkg.Types.Scope() {
						// declared later in this scope: keep looking outward
						continue
					}
				}
				return o
			}
		}
	}
	// parameter / result by name in any frame function
	if o := c.eng.pkg.Types.Scope().Lookup(name); o != nil {
		return o
	}
	if o := types.Universe.Lookup(name); o != nil {
		return o
	}
	return nil
}

func (st *State) specPos() token.Pos {
	if v, ok := st.bound["$pos"]; ok {
		n, _ := strconv.Atoi(v.S)
		return token.Pos(n)
	}
	return token.NoPos
}

func (c *FuncCtx) evalUnary(st *State, x *ast.UnaryExpr) *Val {
	switch x.Op {
	case token.NOT:
		v := c.eval(st, x.X)
		if v.SA != "" {
			// polarity flips under negation
			return &Val{T: tBool, S: mkNot(v.SA), SA: mkNot(v.S), Sort: "Bool"}
		}
		return &Val{T: tBool, S: mkNot(v.S), Sort: "Bool"}
	case token.SUB:
		v := c.eval(st, x.X)
		if v.Sort == "Real" {
			return &Val{T: v.T, S: app("-", v.S), Sort: "Real"}
		}
		r := &Val{T: v.T, S: mkSub("0", v.S), Sort: "Int", Untyped: v.Untyped}
		return r
	case token.ADD:
		return c.eval(st, x.X)
	case token.AND:
		return c.addrOf(st, x.X)
	}
	limitf("%s: unsupported unary operator %s", c.eng.posStr(x.Pos()), x.Op)
	return nil
}

// addrOf: &T{...} allocates; &local of a heap struct type yields its
// reference (address-taken locals live in the heap); &x for other x yields an
// immutable-pointee option value.
func (c *FuncCtx) addrOf(st *State, e ast.Expr) *Val {
	switch x := e.(type) {
	case *ast.ParenExpr:
		return c.addrOf(st, x.X)
	case *ast.CompositeLit:
		return c.evalComposite(st, x, true)
	case *ast.Ident:
		if o, ok := c.eng.info.Uses[x].(*types.Var); ok && c.heapLocals[o] {
			v := st.vars[o]
			return &Val{T: types.NewPointer(o.Type()), S: v.S, Sort: "Int"}
		}
	}
	v := c.eval(st, e)
	if c.eng.isHeapStruct(v.T) {
		limitf("%s: address of a struct value that is not a local variable", c.eng.posStr(e.Pos()))
	}
	os := c.eng.sorts.opt(v.Sort)
	return &Val{T: types.NewPointer(v.T), S: app("some_"+os, v.S), Sort: os}
}

func (c *FuncCtx) deref(st *State, v *Val, pos token.Pos) *Val {
	pt, ok := under(v.T).(*types.Pointer)
	if !ok {
		limitf("%s: dereference of non-pointer", c.eng.posStr(pos))
	}
	if c.eng.isHeapStruct(pt.Elem()) {
		c.safe(st, "nil", pos, mkNot(mkEq(v.S, "0")), "nil dereference")
		return c.loadStruct(st, v.S, pt.Elem())
	}
	isSome := app("(_ is some_"+v.Sort+")", v.S)
	c.safe(st, "nil", pos, isSome, "nil dereference")
	r := c.val(acc("val_"+v.Sort, v.S), pt.Elem())
	st.assume(c.eng.typeFacts(r.S, r.T))
	return r
}

// loadStruct builds the struct value stored at a heap reference.
func (c *FuncCtx) loadStruct(st *State, ref string, t types.Type) *Val {
	stt := under(t).(*types.Struct)
	srt := c.eng.sortOf(t)
	name := structName(t)
	if stt.NumFields() == 0 {
		return &Val{T: t, S: "(mk_" + srt + " 0)", Sort: srt}
	}
	var fs []string
	for i := 0; i < stt.NumFields(); i++ {
		f := stt.Field(i)
		fs = append(fs, mkSel(c.heapArr(st, name, f.Name(), f.Type()), ref))
	}
	return &Val{T: t, S: "(mk_" + srt + " " + strings.Join(fs, " ") + ")", Sort: srt}
}

func (c *FuncCtx) storeStruct(st *State, ref string, v *Val) {
	stt := under(v.T).(*types.Struct)
	name := structName(v.T)
	for i := 0; i < stt.NumFields(); i++ {
		f := stt.Field(i)
		k := heapKey(name, f.Name())
		arr := c.heapArr(st, name, f.Name(), f.Type())
		st.heap[k] = c.shareTerm(st, mkStore(arr, ref, c.fieldOf(v, i)), fmt.Sprintf("(Array Int %s)", c.eng.sortOf(f.Type())), "H_"+name+"_"+f.Name())
	}
}

func (c *FuncCtx) fieldOf(v *Val, i int) string {
	stt := under(v.T).(*types.Struct)
	return app(v.Sort+"_"+stt.Field(i).Name(), v.S)
}

// coerce adapts v to Go type t (interface boxing, untyped constants, nil).
func (c *FuncCtx) coerce(st *State, v *Val, t types.Type) *Val {
	if t == nil {
		return v
	}
	srt := c.eng.sortOf(t)
	if v.IsNil {
		return &Val{T: t, S: c.eng.zeroOfSort(srt, t), Sort: srt}
	}
	if v.Closure != nil {
		return &Val{T: t, S: v.S, Sort: srt, Closure: v.Closure}
	}
	if srt == "Iface" && v.Sort != "Iface" {
		return c.box(st, v, t)
	}
	if srt == "Real" && v.Sort == "Int" {
		return &Val{T: t, S: app("to_real", v.S), Sort: "Real"}
	}
	if v.Sort != srt {
		limitf("cannot use value of sort %s as %s (%s)", v.Sort, srt, t)
	}
	if v.Untyped || v.T == nil {
		return &Val{T: t, S: v.S, Sort: srt}
	}
	return v
}

// box converts a concrete value to an interface value.
func (c *FuncCtx) box(st *State, v *Val, t types.Type) *Val {
	vt := v.T
	if vt == nil || isUntyped(vt) {
		vt = types.Default(vt)
	}
	tag := c.eng.tagFor(vt)
	payload := v.S
	if v.Sort != "Int" {
		bf := "box_" + v.Sort
		uf := "unbox_" + v.Sort
		c.eng.declareUF(bf, fmt.Sprintf("(declare-fun %s (%s) Int)", bf, v.Sort))
		c.eng.declareUF(uf, fmt.Sprintf("(declare-fun %s (Int) %s)", uf, v.Sort))
		payload = app(bf, v.S)
		st.assume(mkEq(app(uf, payload), v.S))
	}
	return &Val{T: t, S: app("mk_Iface", mkInt(int64(tag)), payload), Sort: "Iface"}
}

func (c *FuncCtx) isNilTerm(v *Val) string {
	switch {
	case v.Sort == "Int":
		return mkEq(v.S, "0")
	case v.Sort == "Iface":
		return mkEq(app("tag_Iface", v.S), "0")
	case strings.HasPrefix(v.Sort, "Sl_"), strings.HasPrefix(v.Sort, "Mp_"):
		return acc("nil_"+v.Sort, v.S)
	case strings.HasPrefix(v.Sort, "Opt_"):
		return app("(_ is none_"+v.Sort+")", v.S)
	}
	if strings.HasPrefix(v.Sort, "St_") {
		// a struct value standing in for the address of an addressable variable
		// (receiver of a pure method called on a value): never nil
		return tFalse
	}
	limitf("nil comparison on sort %s", v.Sort)
	return ""
}

func (c *FuncCtx) evalBinary(st *State, x *ast.BinaryExpr) *Val {
	switch x.Op {
	case token.LAND:
		l := c.eval(st, x.X)
		savedGuard := append([]string(nil), st.guard...)
		st.guard = append(st.guard, l.S)
		r := c.eval(st, x.Y)
		// (an inlined callee in x.Y may have joined states, which resets the guard stack)
		st.guard = savedGuard
		res := &Val{T: tBool, S: mkAnd(l.S, r.S), Sort: "Bool"}
		if l.SA != "" || r.SA != "" {
			res.SA = mkAnd(l.forAssume(), r.forAssume())
		}
		return res
	case token.LOR:
		l := c.eval(st, x.X)
		savedGuard := append([]string(nil), st.guard...)
		st.guard = append(st.guard, mkNot(l.S))
		r := c.eval(st, x.Y)
		st.guard = savedGuard
		res := &Val{T: tBool, S: mkOr(l.S, r.S), Sort: "Bool"}
		if l.SA != "" || r.SA != "" {
			res.SA = mkOr(l.forAssume(), r.forAssume())
		}
		return res
	}
	l := c.eval(st, x.X)
	r := c.eval(st, x.Y)
	return c.binop(st, x.Op, l, r, x.Pos(), c.typeOf(x))
}

func (c *FuncCtx) binop(st *State, op token.Token, l, r *Val, pos token.Pos, resT types.Type) *Val {
	// nil comparisons
	if op == token.EQL || op == token.NEQ {
		var t string
		switch {
		case l.IsNil && r.IsNil:
			t = tTrue
		case l.IsNil:
			t = c.isNilTerm(r)
		case r.IsNil:
			t = c.isNilTerm(l)
		default:
			// interface vs concrete
			if l.Sort == "Iface" && r.Sort != "Iface" {
				r = c.box(st, r, l.T)
			} else if r.Sort == "Iface" && l.Sort != "Iface" {
				l = c.box(st, l, r.T)
			}
			if l.Sort == "Int" && r.Sort == "Real" {
				l = &Val{T: r.T, S: app("to_real", l.S), Sort: "Real"}
			} else if r.Sort == "Int" && l.Sort == "Real" {
				r = &Val{T: l.T, S: app("to_real", r.S), Sort: "Real"}
			}
			if l.Sort != r.Sort {
				limitf("%s: comparison of sorts %s and %s", c.eng.posStr(pos), l.Sort, r.Sort)
			}
			if strings.HasPrefix(l.Sort, "Sl_") {
				t = c.sliceEq(st, l, r)
			} else {
				t = mkEq(l.S, r.S)
			}
		}
		if op == token.NEQ {
			t = mkNot(t)
		}
		return &Val{T: tBool, S: t, Sort: "Bool"}
	}
	if l.Sort == "Int" && r.Sort == "Real" {
		l = &Val{T: r.T, S: app("to_real", l.S), Sort: "Real"}
	} else if r.Sort == "Int" && l.Sort == "Real" {
		r = &Val{T: l.T, S: app("to_real", r.S), Sort: "Real"}
	}
	rt := l.T
	if l.Untyped && !r.Untyped {
		rt = r.T
	}
	if resT != nil && !isUntyped(resT) {
		rt = resT
	}
	unt := l.Untyped && r.Untyped
	switch op {
	case token.LSS, token.LEQ, token.GTR, token.GEQ:
		o := map[token.Token]string{token.LSS: "<", token.LEQ: "<=", token.GTR: ">", token.GEQ: ">="}[op]
		if l.Sort == "String" {
			// string ordering is an uninterpreted total preorder symbol: the
			// solvers' string theory combined with quantifiers is far too slow,
			// and nothing verified here depends on how strings compare
			c.eng.declareUF("str_le", "(declare-fun str_le (String String) Bool)")
			le := func(a, b string) string { return app("str_le", a, b) }
			var t string
			switch op {
			case token.LEQ:
				t = le(l.S, r.S)
			case token.GEQ:
				t = le(r.S, l.S)
			case token.LSS:
				t = mkNot(le(r.S, l.S))
			case token.GTR:
				t = mkNot(le(l.S, r.S))
			}
			return &Val{T: tBool, S: t, Sort: "Bool"}
		}
		if l.NaN != "" || r.NaN != "" {
			// every ordered comparison with a NaN is false
			nn := tTrue
			if l.NaN != "" {
				nn = mkAnd(nn, mkNot(l.NaN))
			}
			if r.NaN != "" {
				nn = mkAnd(nn, mkNot(r.NaN))
			}
			return &Val{T: tBool, S: mkAnd(nn, app(o, l.S, r.S)), Sort: "Bool"}
		}
		return &Val{T: tBool, S: app(o, l.S, r.S), Sort: "Bool"}
	case token.ADD:
		if l.Sort == "String" {
			res := &Val{T: rt, S: strConcat(l.S, r.S), Sort: "String"}
			if !c.inSpec(st) && l.S != `""` && r.S != `""` {
				for _, h := range c.eng.spec.Homs {
					if con := c.eng.spec.Contracts[h]; con != nil && c.contract != nil && c.contract.mentions(h) {
						uf := "uf_" + h
						c.eng.declareUF(uf, fmt.Sprintf("(declare-fun %s (String) String)", uf))
						st.assume(mkEq(app(uf, res.S), strConcat(app(uf, l.S), app(uf, r.S))))
					}
				}
			}
			return res
		}
		if l.Sort == "Real" {
			return &Val{T: rt, S: app("+", l.S, r.S), Sort: "Real"}
		}
		res := &Val{T: rt, S: mkAdd(l.S, r.S), Sort: "Int", Untyped: unt}
		c.overflow(st, res, pos)
		return res
	case token.SUB:
		if l.Sort == "Real" {
			return &Val{T: rt, S: app("-", l.S, r.S), Sort: "Real"}
		}
		res := &Val{T: rt, S: mkSub(l.S, r.S), Sort: "Int", Untyped: unt}
		c.overflow(st, res, pos)
		return res
	case token.MUL:
		if l.Sort == "Real" {
			return &Val{T: rt, S: app("*", l.S, r.S), Sort: "Real"}
		}
		res := &Val{T: rt, S: app("*", l.S, r.S), Sort: "Int", Untyped: unt}
		c.overflow(st, res, pos)
		return res
	case token.QUO:
		if l.Sort == "Real" {
			// floating-point division never panics: x/0 is +Inf, -Inf or NaN.
			// Floats are modelled as reals (assumption: operands small enough
			// for float arithmetic to be exact); the infinities are values
			// beyond every finite float32/float64, NaN is tracked in Val.NaN
			if l.NaN != "" || r.NaN != "" {
				limitf("%s: arithmetic on a possibly-NaN value is not modelled", c.eng.posStr(pos))
			}
			c.eng.declareUF("fdivzero", "(declare-fun fdivzero (Real) Real)")
			z := app("fdivzero", l.S)
			st.assume(mkImplies(app(">", l.S, "0.0"), app(">", z, floatInf)))
			st.assume(mkImplies(app("<", l.S, "0.0"), app("<", z, "(- "+floatInf+")")))
			isz := mkEq(r.S, "0.0")
			return &Val{T: rt, S: mkIte(isz, z, app("/", l.S, r.S)), Sort: "Real", NaN: mkAnd(isz, mkEq(l.S, "0.0"))}
		}
		c.safe(st, "div0", pos, mkNot(mkEq(r.S, "0")), "division by zero")
		// Go truncates toward zero
		q := mkIte(app(">=", l.S, "0"),
			mkIte(app(">", r.S, "0"), app("div", l.S, r.S), app("-", app("div", l.S, app("-", r.S)))),
			mkIte(app(">", r.S, "0"), app("-", app("div", app("-", l.S), r.S)), app("div", app("-", l.S), app("-", r.S))))
		return &Val{T: rt, S: q, Sort: "Int", Untyped: unt}
	case token.REM:
		c.safe(st, "div0", pos, mkNot(mkEq(r.S, "0")), "division by zero")
		m := mkIte(app(">=", l.S, "0"), app("mod", l.S, app("abs", r.S)), app("-", app("mod", app("-", l.S), app("abs", r.S))))
		return &Val{T: rt, S: m, Sort: "Int", Untyped: unt}
	case token.AND:
		if n, ok := isIntLit(r.S); ok && n >= 0 {
			return &Val{T: rt, S: bitAndConst(l.S, uint64(n)), Sort: "Int"}
		}
		if n, ok := isIntLit(l.S); ok && n >= 0 {
			return &Val{T: rt, S: bitAndConst(r.S, uint64(n)), Sort: "Int"}
		}
	case token.OR:
		// x | const for flag words: x + (const & ^x)
		if n, ok := isIntLit(r.S); ok && n >= 0 {
			return &Val{T: rt, S: mkAdd(l.S, mkSub(mkInt(n), bitAndConst(l.S, uint64(n)))), Sort: "Int"}
		}
	case token.SHL:
		if n, ok := isIntLit(r.S); ok && n >= 0 && n < 62 {
			return &Val{T: rt, S: app("*", l.S, mkInt(1<<uint(n))), Sort: "Int"}
		}
	}
	limitf("%s: unsupported binary operator %s on %s", c.eng.posStr(pos), op, l.Sort)
	return nil
}

func strConcat(a, b string) string {
	if a == `""` {
		return b
	}
	if b == `""` {
		return a
	}
	return app("str.++", a, b)
}

// bitAndConst: x & k for a non-negative constant k, x >= 0.
func bitAndConst(x string, k uint64) string {
	var parts []string
	for b := uint(0); b < 63; b++ {
		if k&(1<<b) != 0 {
			lo := mkInt(1 << b)
			hi := mkInt(1 << (b + 1))
			parts = append(parts, mkIte(app(">=", app("mod", x, hi), lo), lo, "0"))
		}
	}
	switch len(parts) {
	case 0:
		return "0"
	case 1:
		return parts[0]
	}
	return app("+", parts...)
}

// overflow: integers are modelled mathematically; that is justified by an
// obligation that the result fits the static type.
func (c *FuncCtx) overflow(st *State, v *Val, pos token.Pos) {
	if v.Untyped || v.T == nil || st.bound["$spec"] != nil {
		return
	}
	if _, ok := isIntLit(v.S); ok {
		return
	}
	f := c.eng.typeFacts(v.S, v.T)
	if f == tTrue {
		return
	}
	c.safeKind(st, "ovf", "overflow", pos, f, "arithmetic result fits "+v.T.String())
}

// sliceEq: extensional equality of two slice values (spec-level ==).
func (c *FuncCtx) sliceEq(st *State, a, b *Val) string {
	s := a.Sort
	i := c.bvar("i")
	return mkAnd(
		mkEq(acc("len_"+s, a.S), acc("len_"+s, b.S)),
		fmt.Sprintf("(forall ((%s Int)) (=> (and (<= 0 %s) (< %s (len_%s %s))) (= %s %s)))", i, i, i, s, a.S,
			mkSel(acc("base_"+s, a.S), mkAdd(acc("off_"+s, a.S), i)),
			mkSel(acc("base_"+s, b.S), mkAdd(acc("off_"+s, b.S), i))))
}

var bvarN int

func (c *FuncCtx) bvar(prefix string) string {
	bvarN++
	return fmt.Sprintf("%s?%d", prefix, bvarN)
}

// ----------------------------------------------------------- selectors ---

func (c *FuncCtx) evalSelector(st *State, x *ast.SelectorExpr) *Val {
	// package-qualified identifier
	if id, ok := x.X.(*ast.Ident); ok {
		if _, bound := st.bound[id.Name]; !bound {
			var obj types.Object
			if o, ok := c.eng.info.Uses[id]; ok {
				obj = o
			} else if c.eng.info.Defs[id] == nil {
				obj = c.lookupSpecName(st, id.Name)
				if obj == nil {
					// imported package referenced from a spec expression
					for _, imp := range c.eng.pkg.Types.Imports() {
						if imp.Name() == id.Name {
							obj = types.NewPkgName(token.NoPos, c.eng.pkg.Types, imp.Name(), imp)
						}
					}
				}
			}
			if pn, ok := obj.(*types.PkgName); ok {
				o := pn.Imported().Scope().Lookup(x.Sel.Name)
				switch oo := o.(type) {
				case *types.Const:
					return constToVal(c, oo.Val(), oo.Type())
				case *types.Var:
					return c.globalVar(oo)
				case *types.Func:
					name := "fn_" + pn.Imported().Name() + "_" + oo.Name()
					c.declOnce(name, "Int")
					return &Val{T: oo.Type(), S: name, Sort: "Int"}
				}
				limitf("%s: unsupported package member %s.%s", c.eng.posStr(x.Pos()), id.Name, x.Sel.Name)
			}
		}
	}
	base := c.eval(st, x.X)
	return c.selectField(st, base, x.Sel.Name, x.Pos())
}

// selectField reads field name of base, following embedded fields and
// automatic dereference.
func (c *FuncCtx) selectField(st *State, base *Val, name string, pos token.Pos) *Val {
	if base.T == nil {
		limitf("%s: selector on untyped value", c.eng.posStr(pos))
	}
	obj, path, _ := types.LookupFieldOrMethod(base.T, true, c.eng.pkg.Types, name)
	if obj == nil {
		limitf("%s: no field %q in %s", c.eng.posStr(pos), name, base.T)
	}
	if fn, isFn := obj.(*types.Func); isFn {
		// method value: an opaque, non-nil func value
		h := c.fresh("methodvalue_"+name, "Int")
		st.assume(app("<", "0", h))
		sig := fn.Type().(*types.Signature)
		return &Val{T: types.NewSignatureType(nil, nil, nil, sig.Params(), sig.Results(), sig.Variadic()), S: h, Sort: "Int"}
	}
	cur := base
	for _, idx := range path {
		cur = c.fieldStep(st, cur, idx, pos)
	}
	return cur
}

func (c *FuncCtx) fieldStep(st *State, cur *Val, idx int, pos token.Pos) *Val {
	t := cur.T
	if p, ok := under(t).(*types.Pointer); ok {
		el := p.Elem()
		if c.eng.isHeapStruct(el) {
			stt := under(el).(*types.Struct)
			f := stt.Field(idx)
			c.safe(st, "nil", pos, mkNot(mkEq(cur.S, "0")), "nil dereference ("+structName(el)+"."+f.Name()+")")
			arr := c.heapArr(st, structName(el), f.Name(), f.Type())
			r := c.val(mkSel(arr, cur.S), f.Type())
			c.readFacts(st, r)
			if f.Embedded() && c.eng.spec.WfNonNil && !c.inSpec(st) {
				// wf: an embedded *Group / *Command of an existing object is set
				// by its constructor and never nil
				if p2, ok := under(f.Type()).(*types.Pointer); ok && c.eng.isHeapStruct(p2.Elem()) {
					st.assume(app("<", "0", r.S))
				}
			}
			return r
		}
		// pointer to a non-heap struct (immutable pointee) or foreign struct
		cur = c.deref(st, cur, pos)
		t = cur.T
	}
	if n, ok := t.(*types.Named); ok && n.Obj().Pkg() != c.eng.pkg.Types {
		// foreign struct: uninterpreted accessor
		stt, ok := n.Underlying().(*types.Struct)
		if !ok {
			limitf("%s: field of foreign non-struct %s", c.eng.posStr(pos), t)
		}
		f := stt.Field(idx)
		uf := "F_" + n.Obj().Pkg().Name() + "_" + n.Obj().Name() + "_" + f.Name()
		fs := c.eng.sortOf(f.Type())
		c.eng.declareUF(uf, fmt.Sprintf("(declare-fun %s (Int) %s)", uf, fs))
		r := c.val(app(uf, cur.S), f.Type())
		c.readFacts(st, r)
		return r
	}
	stt, ok := under(t).(*types.Struct)
	if !ok {
		limitf("%s: field selection on %s", c.eng.posStr(pos), t)
	}
	f := stt.Field(idx)
	r := c.val(acc(cur.Sort+"_"+f.Name(), cur.S), f.Type())
	c.readFacts(st, r)
	return r
}

// ------------------------------------------------------- index / slice ---

func (c *FuncCtx) evalIndex(st *State, x *ast.IndexExpr) *Val {
	base := c.eval(st, x.X)
	idx := c.eval(st, x.Index)
	return c.indexVal(st, base, idx, x.Pos())
}

// nameIndex gives a compound index expression a name, so that the element
// term has the shape (select base (+ off ix)) which quantifier triggers of the
// form (select base (+ off k)) match (solvers flatten nested sums otherwise).
func (c *FuncCtx) nameIndex(st *State, idx *Val) *Val {
	if c.inSpec(st) || !strings.Contains(idx.S, " ") {
		return idx
	}
	if _, ok := isIntLit(idx.S); ok {
		return idx
	}
	n := c.fresh("ix", "Int")
	st.assume(mkEq(n, idx.S))
	nv := *idx
	nv.S = n
	return &nv
}

func (c *FuncCtx) indexVal(st *State, base, idx *Val, pos token.Pos) *Val {
	if _, isMap := under(base.T).(*types.Map); !isMap {
		idx = c.nameIndex(st, idx)
	}
	switch u := under(base.T).(type) {
	case *types.Basic: // string
		l := app("str.len", base.S)
		c.safe(st, "index", pos, mkAnd(app("<=", "0", idx.S), app("<", idx.S, l)), "string index in range")
		r := &Val{T: tByte, S: app("str.to_code", app("str.at", base.S, idx.S)), Sort: "Int"}
		st.assume(mkImplies(mkAnd(app("<=", "0", idx.S), app("<", idx.S, l)), c.eng.typeFacts(r.S, tByte)))
		return r
	case *types.Slice:
		s := base.Sort
		l := acc("len_"+s, base.S)
		c.safe(st, "index", pos, mkAnd(app("<=", "0", idx.S), app("<", idx.S, l)), "slice index in range")
		r := c.val(mkSel(acc("base_"+s, base.S), mkAdd(acc("off_"+s, base.S), idx.S)), u.Elem())
		c.readFacts(st, r)
		c.wfElem(st, r)
		return r
	case *types.Map:
		s := base.Sort
		k := c.coerce(st, idx, u.Key())
		r := c.val(mkIte(mkSel(acc("dom_"+s, base.S), k.S), mkSel(acc("val_"+s, base.S), k.S), c.eng.zero(u.Elem())), u.Elem())
		c.readFacts(st, r)
		return r
	case *types.Pointer:
		limitf("%s: index through pointer", c.eng.posStr(pos))
	}
	limitf("%s: index on %s", c.eng.posStr(pos), base.T)
	return nil
}

func (c *FuncCtx) evalSliceExpr(st *State, x *ast.SliceExpr) *Val {
	base := c.eval(st, x.X)
	var lo, hi *Val
	if x.Low != nil {
		lo = c.eval(st, x.Low)
	}
	if x.High != nil {
		hi = c.eval(st, x.High)
	}
	if x.Max != nil {
		limitf("%s: 3-index slice", c.eng.posStr(x.Pos()))
	}
	return c.sliceVal(st, base, lo, hi, x.Pos())
}

func (c *FuncCtx) sliceVal(st *State, base, lo, hi *Val, pos token.Pos) *Val {
	loS := "0"
	if lo != nil {
		loS = lo.S
	}
	if b, ok := under(base.T).(*types.Basic); ok && b.Info()&types.IsString != 0 {
		l := app("str.len", base.S)
		hiS := l
		if hi != nil {
			hiS = hi.S
		}
		g := mkAnd(app("<=", "0", loS), app("<=", loS, hiS), app("<=", hiS, l))
		c.safe(st, "slice", pos, g, "string slice bounds")
		return &Val{T: base.T, S: app("str.substr", base.S, loS, mkSub(hiS, loS)), Sort: "String"}
	}
	if _, ok := under(base.T).(*types.Slice); ok {
		s := base.Sort
		l := acc("len_"+s, base.S)
		hiS := l
		if hi != nil {
			hiS = hi.S
		}
		// Go allows hi up to cap; capacity is not modelled, so the stronger
		// hi <= len is required (sufficient for every use in this package).
		g := mkAnd(app("<=", "0", loS), app("<=", loS, hiS), app("<=", hiS, l))
		c.safe(st, "slice", pos, g, "slice bounds")
		return &Val{T: base.T, S: app("mk_"+s, acc("base_"+s, base.S), mkAdd(acc("off_"+s, base.S), loS), mkSub(hiS, loS), acc("nil_"+s, base.S)), Sort: s}
	}
	limitf("%s: slice of %s", c.eng.posStr(pos), base.T)
	return nil
}

// ------------------------------------------------------ type assertion ---

// typeAssert returns the asserted value and the condition under which the
// assertion holds.
func (c *FuncCtx) typeAssert(st *State, x *ast.TypeAssertExpr) (*Val, string) {
	v := c.eval(st, x.X)
	if v.Sort != "Iface" {
		limitf("%s: type assertion on non-interface", c.eng.posStr(x.Pos()))
	}
	t := c.typeOf(x.Type)
	if t == nil {
		t = c.resolveSpecType(x.Type)
	}
	return c.assertTo(st, v, t)
}

func (c *FuncCtx) assertTo(st *State, v *Val, t types.Type) (*Val, string) {
	if _, isIface := under(t).(*types.Interface); isIface {
		// interface-to-interface: an uninterpreted predicate on the dynamic type
		name := "impl_" + sortIdent(strings.ReplaceAll(types.TypeString(t, func(*types.Package) string { return "" }), ".", "_"))
		c.eng.declareUF(name, fmt.Sprintf("(declare-fun %s (Int) Bool)", name))
		ok := mkAnd(mkNot(mkEq(app("tag_Iface", v.S), "0")), app(name, app("tag_Iface", v.S)))
		return &Val{T: t, S: v.S, Sort: "Iface"}, ok
	}
	tag := c.eng.tagFor(t)
	ok := mkEq(app("tag_Iface", v.S), mkInt(int64(tag)))
	srt := c.eng.sortOf(t)
	var term string
	if srt == "Int" {
		term = app("ref_Iface", v.S)
	} else {
		uf := "unbox_" + srt
		bf := "box_" + srt
		c.eng.declareUF(bf, fmt.Sprintf("(declare-fun %s (%s) Int)", bf, srt))
		c.eng.declareUF(uf, fmt.Sprintf("(declare-fun %s (Int) %s)", uf, srt))
		term = app(uf, app("ref_Iface", v.S))
	}
	// on failure the zero value results
	r := &Val{T: t, S: mkIte(ok, term, c.eng.zeroOfSort(srt, t)), Sort: srt}
	return r, ok
}

func (c *FuncCtx) resolveSpecType(e ast.Expr) types.Type {
	switch x := e.(type) {
	case *ast.StarExpr:
		return types.NewPointer(c.resolveSpecType(x.X))
	case *ast.Ident:
		if o := c.eng.pkg.Types.Scope().Lookup(x.Name); o != nil {
			if tn, ok := o.(*types.TypeName); ok {
				return tn.Type()
			}
		}
		if o := types.Universe.Lookup(x.Name); o != nil {
			if tn, ok := o.(*types.TypeName); ok {
				return tn.Type()
			}
		}
	case *ast.ArrayType:
		if x.Len == nil {
			return types.NewSlice(c.resolveSpecType(x.Elt))
		}
	case *ast.MapType:
		return types.NewMap(c.resolveSpecType(x.Key), c.resolveSpecType(x.Value))
	case *ast.SelectorExpr:
		if id, ok := x.X.(*ast.Ident); ok {
			for _, imp := range c.eng.pkg.Types.Imports() {
				if imp.Name() == id.Name {
					if o := imp.Scope().Lookup(x.Sel.Name); o != nil {
						if tn, ok := o.(*types.TypeName); ok {
							return tn.Type()
						}
					}
				}
			}
		}
	case *ast.InterfaceType:
		return types.NewInterfaceType(nil, nil)
	case *ast.ParenExpr:
		return c.resolveSpecType(x.X)
	}
	limitf("cannot resolve type expression in spec")
	return nil
}

// ------------------------------------------------------ composite lits ---

func (c *FuncCtx) evalComposite(st *State, x *ast.CompositeLit, addr bool) *Val {
	t := c.typeOf(x)
	if t == nil && x.Type != nil {
		t = c.resolveSpecType(x.Type)
	}
	if t == nil {
		limitf("%s: composite literal without type information", c.eng.posStr(x.Pos()))
	}
	if n, ok := t.(*types.Named); ok && n.Obj().Pkg() != c.eng.pkg.Types {
		// value of a foreign struct type: an opaque fresh handle
		h := c.fresh("foreign_"+n.Obj().Name(), "Int")
		if addr {
			os := c.eng.sorts.opt("Int")
			pv := &Val{T: types.NewPointer(t), S: app("some_"+os, h), Sort: os}
			c.zeroGhosts(st, pv)
			return pv
		}
		fv := &Val{T: t, S: h, Sort: "Int"}
		c.zeroGhosts(st, fv)
		return fv
	}
	switch u := under(t).(type) {
	case *types.Struct:
		fields := make([]string, u.NumFields())
		for i := 0; i < u.NumFields(); i++ {
			fields[i] = c.eng.zero(u.Field(i).Type())
		}
		for i, el := range x.Elts {
			if kv, ok := el.(*ast.KeyValueExpr); ok {
				name := kv.Key.(*ast.Ident).Name
				found := false
				for j := 0; j < u.NumFields(); j++ {
					if u.Field(j).Name() == name {
						fields[j] = c.coerce(st, c.evalElt(st, kv.Value, u.Field(j).Type()), u.Field(j).Type()).S
						found = true
					}
				}
				if !found {
					limitf("unknown field %s in literal", name)
				}
			} else {
				fields[i] = c.coerce(st, c.evalElt(st, el, u.Field(i).Type()), u.Field(i).Type()).S
			}
		}
		srt := c.eng.sortOf(t)
		var term string
		if u.NumFields() == 0 {
			term = "(mk_" + srt + " 0)"
		} else {
			term = "(mk_" + srt + " " + strings.Join(fields, " ") + ")"
		}
		v := &Val{T: t, S: term, Sort: srt}
		if addr {
			if !c.eng.isHeapStruct(t) {
				os := c.eng.sorts.opt(srt)
				return &Val{T: types.NewPointer(t), S: app("some_"+os, term), Sort: os}
			}
			ref := c.alloc(st, t)
			c.storeStruct(st, ref, v)
			return &Val{T: types.NewPointer(t), S: ref, Sort: "Int"}
		}
		return v
	case *types.Slice:
		srt := c.eng.sortOf(t)
		es := c.eng.sortOf(u.Elem())
		arr := fmt.Sprintf("((as const (Array Int %s)) %s)", es, c.eng.zeroOfSort(es, u.Elem()))
		n := 0
		for _, el := range x.Elts {
			if _, ok := el.(*ast.KeyValueExpr); ok {
				limitf("%s: keyed slice literal", c.eng.posStr(x.Pos()))
			}
			v := c.coerce(st, c.evalElt(st, el, u.Elem()), u.Elem())
			arr = mkStore(arr, mkInt(int64(n)), v.S)
			n++
		}
		if addr {
			limitf("%s: address of slice literal", c.eng.posStr(x.Pos()))
		}
		return &Val{T: t, S: app("mk_"+srt, arr, "0", mkInt(int64(n)), tFalse), Sort: srt}
	case *types.Map:
		srt := c.eng.sortOf(t)
		ks, vs := c.eng.sortOf(u.Key()), c.eng.sortOf(u.Elem())
		dom := fmt.Sprintf("((as const (Array %s Bool)) false)", ks)
		val := fmt.Sprintf("((as const (Array %s %s)) %s)", ks, vs, c.eng.zeroOfSort(vs, u.Elem()))
		for _, el := range x.Elts {
			kv := el.(*ast.KeyValueExpr)
			k := c.coerce(st, c.eval(st, kv.Key), u.Key())
			v := c.coerce(st, c.evalElt(st, kv.Value, u.Elem()), u.Elem())
			dom = mkStore(dom, k.S, tTrue)
			val = mkStore(val, k.S, v.S)
		}
		return &Val{T: t, S: app("mk_"+srt, dom, val, tFalse), Sort: srt}
	}
	limitf("%s: unsupported composite literal of %s", c.eng.posStr(x.Pos()), t)
	return nil
}

// evalElt evaluates a literal element, which may be an elided-type composite.
func (c *FuncCtx) evalElt(st *State, e ast.Expr, t types.Type) *Val {
	if cl, ok := e.(*ast.CompositeLit); ok && cl.Type == nil {
		if _, isPtr := under(t).(*types.Pointer); isPtr {
			return c.evalComposite(st, cl, true)
		}
		return c.evalComposite(st, cl, false)
	}
	return c.eval(st, e)
}

// alloc returns a fresh non-nil reference, distinct from every reference of
// the same struct type currently held in a variable of this path.
func (c *FuncCtx) alloc(st *State, t types.Type) string {
	r := c.fresh("new_"+structName(t), "Int")
	st.assume(app(">", r, "0"))
	// freshness: everything allocated before is older. Modelled by a per-type
	// allocation frontier (an upper bound of every reference of the type handed
	// out so far): a new reference lies above it and becomes the frontier.
	st.assume(app(">", r, c.frontier(st, structName(t))))
	var others []string
	for _, v := range st.vars {
		if v != nil && v.Sort == "Int" && v.T != nil {
			if p, ok := under(v.T).(*types.Pointer); ok && types.Identical(p.Elem(), t) && v.S != r {
				others = append(others, v.S)
			}
		}
	}
	sort.Strings(others)
	for _, o := range others {
		st.assume(mkNot(mkEq(r, o)))
	}
	st.bound["$alloc_"+structName(t)] = &Val{S: r, Sort: "Int"}
	st.allocs = append(st.allocs, r)
	return r
}

// frontier: the current allocation frontier of a struct type - the last
// reference allocated on this path, the loop-head / join frontier, or the
// entry frontier alloc0_T. Nothing ever bounds a frontier from above, so any
// upper bound of the references handed out so far is a sound choice.
func (c *FuncCtx) frontier(st *State, sname string) string {
	if prev, ok := st.bound["$alloc_"+sname]; ok {
		return prev.S
	}
	fr := "alloc0_" + sname
	c.declOnce(fr, "Int")
	return fr
}

// havocFrontiers: at a loop head (an arbitrary iteration) the frontier of
// every struct type the package allocates is an unknown value not below the
// frontier on loop entry.
func (c *FuncCtx) havocFrontiers(st *State) {
	names := map[string]bool{}
	for k := range st.bound {
		if strings.HasPrefix(k, "$alloc_") {
			names[strings.TrimPrefix(k, "$alloc_")] = true
		}
	}
	for _, n := range c.eng.allocStructNames() {
		names[n] = true
	}
	for _, n := range sortedKeys(names) {
		prev := c.frontier(st, n)
		f := c.fresh("frontier_"+n, "Int")
		st.assume(app(">=", f, prev))
		st.bound["$alloc_"+n] = &Val{S: f, Sort: "Int"}
	}
}

// allocStructNames: the package's struct types that some function allocates
// (composite literal or new).
func (e *Engine) allocStructNames() []string {
	if e.allocNames != nil {
		return e.allocNames
	}
	seen := map[string]bool{}
	for _, f := range e.pkg.Syntax {
		ast.Inspect(f, func(n ast.Node) bool {
			var t types.Type
			switch x := n.(type) {
			case *ast.CompositeLit:
				t = e.info.TypeOf(x)
			case *ast.CallExpr:
				if id, ok := x.Fun.(*ast.Ident); ok && id.Name == "new" && len(x.Args) == 1 {
					t = e.info.TypeOf(x.Args[0])
				}
			}
			if t != nil && e.isHeapStruct(t) {
				seen[structName(t)] = true
			}
			return true
		})
	}
	e.allocNames = sortedKeys(seen)
	if e.allocNames == nil {
		e.allocNames = []string{}
	}
	return e.allocNames
}

// readFacts: type-range facts for a value just read from memory. Spec
// expressions do not need them (and they would bloat quantifier bodies).
func (c *FuncCtx) readFacts(st *State, r *Val) {
	if c.inSpec(st) && strings.Contains(r.S, "?") {
		return
	}
	st.assume(c.eng.typeFacts(r.S, r.T))
}

// wfElem: trusted data-structure invariant - the pointer slices held in the
// parser's structures ([]*Option, []*Group, []*Command, []*Arg) contain no nil
// element (scanStruct/AddGroup/AddCommand/fillParseState only ever store
// freshly allocated objects). Assumed at element reads in code.
func (c *FuncCtx) wfElem(st *State, r *Val) {
	// (also inside specifications: under a quantifier the fact becomes a side
	// fact of the quantified formula, see Val.SA)
	if !c.eng.spec.WfNonNil {
		return
	}
	if p, ok := under(r.T).(*types.Pointer); ok && c.eng.isHeapStruct(p.Elem()) {
		st.assume(app("<", "0", r.S))
	}
}
