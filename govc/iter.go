package main

import (
	"go/ast"
)

func (c *FuncCtx) execIterator(st *State, call *ast.CallExpr, sel *ast.SelectorExpr, fl *ast.FuncLit) []outcome {
	limitf("%s: iterator closures not yet supported", c.eng.posStr(call.Pos()))
	return nil
}

func (c *FuncCtx) execRangeMapImpl(st *State, x *ast.RangeStmt, coll *Val, li *loopInfo, inv []*Clause) []outcome {
	limitf("%s: range over map not yet supported", c.eng.posStr(x.Pos()))
	return nil
}
