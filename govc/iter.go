package main

import (
	"fmt"
	"go/ast"
	"go/types"
	"strings"
)

// execIterator treats  x.eachGroup(func(g *Group) { body })  (and the other
// three iterators of the package) as a loop over an abstract finite sequence
// of parameter tuples: tuple k is (it_N_0[k], it_N_1[k], ...), the loop
// position is idx_N and the length itlen_N.  Which tuples the sequence holds
// is the iterator's (assumed) contract: the sequence is a function of the
// receiver named seqOf_<iterator>, so two walks over the same receiver see the
// same sequence.  A return inside the closure is a continue.
func (c *FuncCtx) execIterator(st *State, call *ast.CallExpr, sel *ast.SelectorExpr, fl *ast.FuncLit) []outcome {
	recv := c.eval(st, sel.X)
	if p, ok := under(recv.T).(*types.Pointer); ok && c.eng.isHeapStruct(p.Elem()) {
		c.safe(st, "nil", call.Pos(), mkNot(mkEq(recv.S, "0")), "iterator called on nil receiver")
	}
	// find the actual receiver of the iterator method (promoted through embedding)
	obj, path, _ := types.LookupFieldOrMethod(recv.T, true, c.eng.pkg.Types, sel.Sel.Name)
	fn, ok := obj.(*types.Func)
	if !ok {
		limitf("%s: %s is not a method", c.eng.posStr(call.Pos()), sel.Sel.Name)
	}
	cur := recv
	for _, idx := range path[:len(path)-1] {
		cur = c.fieldStep(st, cur, idx, sel.Pos())
	}
	for _, a := range call.Args {
		if _, isLit := a.(*ast.FuncLit); !isLit {
			c.eval(st, a) // e.g. the "recurse" flag of eachCommand
		}
	}
	li := c.newLoopInfo(call, call.Pos())
	li.modVars, li.modHeap = c.eng.loopMods(c, fl.Body)
	inv, _ := c.loopSpec(li.ord)
	ftype := c.typeOf(fl).(*types.Signature)
	np := ftype.Params().Len()
	iterKey := c.eng.fobjs[fn]
	// the ghost sequence: one array per closure parameter, a function of the receiver
	seq := make([]string, np)
	for j := 0; j < np; j++ {
		uf := fmt.Sprintf("seqOf_%s_%d", strings.ReplaceAll(iterKey, ".", "_"), j)
		c.eng.declareUF(uf, fmt.Sprintf("(declare-fun %s (Int) (Array Int %s))", uf, c.eng.sortOf(ftype.Params().At(j).Type())))
		seq[j] = app(uf, cur.S)
	}
	lenUF := fmt.Sprintf("seqLen_%s", strings.ReplaceAll(iterKey, ".", "_"))
	c.eng.declareUF(lenUF, fmt.Sprintf("(declare-fun %s (Int) Int)", lenUF))
	length := app(lenUF, cur.S)
	st.assume(app("<=", "0", length))
	idxName := fmt.Sprintf("idx_%d", li.ord)
	li.extra[idxName] = &Val{T: tInt, S: "0", Sort: "Int"}
	li.extra[fmt.Sprintf("itlen_%d", li.ord)] = &Val{T: tInt, S: length, Sort: "Int"}
	for j := 0; j < np; j++ {
		li.extra[fmt.Sprintf("it_%d_%d", li.ord, j)] = &Val{T: types.NewSlice(ftype.Params().At(j).Type()), S: app("mk_"+c.eng.sortOf(types.NewSlice(ftype.Params().At(j).Type())), seq[j], "0", length, tFalse), Sort: c.eng.sortOf(types.NewSlice(ftype.Params().At(j).Type()))}
	}
	c.checkInv(st, li, inv, "init")
	h := st.clone()
	c.havocLoop(h, li)
	k := c.fresh(idxName, "Int")
	h.assume(mkAnd(app("<=", "0", k), app("<=", k, length)))
	li.extra[idxName] = &Val{T: tInt, S: k, Sort: "Int"}
	c.assumeInv(h, li, inv)
	var outs []outcome
	e := h.clone()
	e.assume(mkEq(k, length))
	outs = append(outs, outcome{oNext, e})
	b := h.clone()
	b.assume(app("<", k, length))
	// bind closure parameters
	j := 0
	for _, f := range fl.Type.Params.List {
		for _, n := range f.Names {
			pt := ftype.Params().At(j).Type()
			v := c.val(mkSel(seq[j], k), pt)
			b.assume(c.eng.typeFacts(v.S, pt))
			c.wfElem(b, v)
			if o, ok := c.eng.info.Defs[n].(*types.Var); ok && o != nil {
				b.vars[o] = v
			}
			j++
		}
	}
	savedFrame := b.frame
	b.frame = &frame{decl: c.decl, closure: true, parent: savedFrame}
	c.ghostStack = append(c.ghostStack, li.extra)
	bodyOuts := c.execBlock(b, fl.Body.List)
	c.ghostStack = c.ghostStack[:len(c.ghostStack)-1]
	for _, o := range bodyOuts {
		switch o.kind {
		case oNext, oContinue:
			o.st.frame = savedFrame
			li2 := *li
			li2.extra = map[string]*Val{}
			for kk, vv := range li.extra {
				li2.extra[kk] = vv
			}
			li2.extra[idxName] = &Val{T: tInt, S: mkAdd(k, "1"), Sort: "Int"}
			c.checkInv(o.st, &li2, inv, "step")
		default:
			limitf("%s: break/return-with-value inside an iterator closure", c.eng.posStr(call.Pos()))
		}
	}
	return c.mergeNext(outs)
}

// execRangeMapImpl: range over a map visits every key exactly once in an
// ARBITRARY order. The order is a ghost sequence mkeys_N (fresh, unconstrained
// except for: every element is a key of the map, elements are pairwise
// distinct, every key occurs). Whatever is proved holds for every order the
// runtime may choose. The map must not be written inside the loop.
func (c *FuncCtx) execRangeMapImpl(st *State, x *ast.RangeStmt, coll *Val, li *loopInfo, inv []*Clause) []outcome {
	mt := under(coll.T).(*types.Map)
	ks, vs := c.eng.sortOf(mt.Key()), c.eng.sortOf(mt.Elem())
	_ = vs
	idxName := fmt.Sprintf("idx_%d", li.ord)
	seqArr := c.fresh(fmt.Sprintf("mkeys_%d", li.ord), fmt.Sprintf("(Array Int %s)", ks))
	n := c.fresh(fmt.Sprintf("mlen_%d", li.ord), "Int")
	dom := acc("dom_"+coll.Sort, coll.S)
	st.assume(app("<=", "0", n))
	i, j, kk := c.bvar("i"), c.bvar("j"), c.bvar("k")
	st.assume(fmt.Sprintf("(forall ((%s Int)) (=> (and (<= 0 %s) (< %s %s)) (select %s (select %s %s))))", i, i, i, n, dom, seqArr, i))
	st.assume(fmt.Sprintf("(forall ((%s Int) (%s Int)) (=> (and (<= 0 %s) (< %s %s) (< %s %s)) (not (= (select %s %s) (select %s %s)))))", i, j, i, i, j, j, n, seqArr, i, seqArr, j))
	// "every key occurs" is only stated where the loop has finished: inside the
	// body it is not needed and its forall-exists shape sends the solvers into
	// long instantiation chains (leaving a hypothesis out is sound)
	posFn := c.fresh(fmt.Sprintf("mpos_%d", li.ord), "Int")
	// (declared as a constant by fresh; re-declare as a function)
	c.decls[len(c.decls)-1] = fmt.Sprintf("(declare-fun %s (%s) Int)", posFn, ks)
	everyKey := fmt.Sprintf("(forall ((%s %s)) (! (=> (select %s %s) (and (<= 0 (%s %s)) (< (%s %s) %s) (= (select %s (%s %s)) %s))) :pattern ((select %s %s))))", kk, ks, dom, kk, posFn, kk, posFn, kk, n, seqArr, posFn, kk, kk, dom, kk)
	_ = i
	keysT := types.NewSlice(mt.Key())
	ksrt := c.eng.sortOf(keysT)
	li.extra[fmt.Sprintf("mkeys_%d", li.ord)] = &Val{T: keysT, S: app("mk_"+ksrt, seqArr, "0", n, tFalse), Sort: ksrt}
	li.extra[idxName] = &Val{T: tInt, S: "0", Sort: "Int"}
	c.checkInv(st, li, inv, "init")
	h := st.clone()
	c.havocLoop(h, li)
	k := c.fresh(idxName, "Int")
	h.assume(mkAnd(app("<=", "0", k), app("<=", k, n)))
	li.extra[idxName] = &Val{T: tInt, S: k, Sort: "Int"}
	c.assumeInv(h, li, inv)
	var outs []outcome
	e := h.clone()
	e.assume(mkEq(k, n))
	e.assume(everyKey)
	outs = append(outs, outcome{oNext, e})
	b := h.clone()
	b.assume(app("<", k, n))
	key := c.val(mkSel(seqArr, k), mt.Key())
	b.assume(c.eng.typeFacts(key.S, key.T))
	c.wfElem(b, key)
	val := c.val(mkSel(acc("val_"+coll.Sort, coll.S), key.S), mt.Elem())
	b.assume(mkSel(dom, key.S))
	b.assume(c.eng.typeFacts(val.S, val.T))
	// trusted data-structure invariant (wf nonnil-elements): the tables of the
	// parser hold no nil entry under a key that is present
	c.wfElem(b, val)
	if x.Key != nil {
		c.bindRangeVar(b, x.Key, key, x.Tok)
	}
	if x.Value != nil {
		c.bindRangeVar(b, x.Value, val, x.Tok)
	}
	c.ghostStack = append(c.ghostStack, li.extra)
	bodyOuts := c.execBlock(b, x.Body.List)
	c.ghostStack = c.ghostStack[:len(c.ghostStack)-1]
	for _, o := range bodyOuts {
		switch o.kind {
		case oNext, oContinue:
			li2 := *li
			li2.extra = map[string]*Val{}
			for a, v := range li.extra {
				li2.extra[a] = v
			}
			li2.extra[idxName] = &Val{T: tInt, S: mkAdd(k, "1"), Sort: "Int"}
			c.checkInv(o.st, &li2, inv, "step")
		case oBreak:
			outs = append(outs, outcome{oNext, o.st})
		case oReturn:
			outs = append(outs, o)
		}
	}
	return c.mergeNext(outs)
}
