package main

// Replay of counterexamples on the real code.
//
// For a failed obligation of a function whose parameters are plain values
// (strings, integers, booleans, slices of strings) the solver's model is
// turned into an in-package Go test, injected with "go test -overlay" (nothing
// is written into the repository), which calls the REAL function with the
// model's arguments and reports results or the panic.  A safety obligation is
// confirmed by the panic; a postcondition by evaluating the failed clause on
// the observed results (the clause is re-translated to SMT with concrete
// values and decided by the solver).  Everything else is reported with the
// obligation, the model and the solver output, and is marked
// no-failing-input-found.

import (
	"context"
	"encoding/json"
	"fmt"
	"go/types"
	"os"
	"os/exec"
	"path/filepath"
	"strconv"
	"strings"
	"time"
)

type paramInfo struct {
	Name string
	T    types.Type
	Term string
}

type replayFile struct {
	Property    string            `json:"property"`
	Obligation  string            `json:"obligation"`
	Kind        string            `json:"kind"`
	Function    string            `json:"function"`
	Pos         string            `json:"pos"`
	Clause      string            `json:"clause"`
	Status      string            `json:"solver_status"`
	Solver      string            `json:"solver"`
	Outputs     map[string]string `json:"solver_outputs"`
	Model       map[string]string `json:"model,omitempty"`
	TestSource  string            `json:"test_source,omitempty"`
	Command     string            `json:"command,omitempty"`
	Observed    string            `json:"observed,omitempty"`
	Confirmed   bool              `json:"confirmed_on_real_code"`
	NoInput     bool              `json:"no_failing_input_found"`
	Bounded     bool              `json:"found_by_bounded_search,omitempty"`
	Explanation string            `json:"explanation"`
}

// modelValues asks the solver that answered sat for the values of the given
// terms.
func (e *Engine) modelValues(o *Obligation, terms []string, workdir string, budgetS int) map[string]string {
	if len(terms) == 0 {
		return nil
	}
	q := e.buildQuery(o, false)
	// a parameter the goal does not depend on is not even declared in the
	// query: it keeps its zero value in the replay
	var asked []string
	for _, t := range terms {
		sym := t
		if i := strings.LastIndex(t, " p_"); i >= 0 {
			sym = strings.TrimRight(t[i+1:], ")")
			if j := strings.IndexAny(sym, " )"); j >= 0 {
				sym = sym[:j]
			}
		}
		sym = strings.TrimSuffix(sym, "_base")
		if strings.Contains(q, "(declare-const "+sym+" ") || strings.Contains(q, "(declare-fun "+sym+" ") || strings.Contains(q, "(declare-const "+sym+"_base ") {
			asked = append(asked, t)
		}
	}
	terms = asked
	if len(terms) == 0 {
		return map[string]string{}
	}
	q += "(get-value (" + strings.Join(terms, " ") + "))\n"
	file := filepath.Join(workdir, "model-"+sanitize(o.Name)+".smt2")
	os.WriteFile(file, []byte(q), 0o644)
	defer os.Remove(file)
	for _, sp := range solvers {
		if sp.name != o.Solver {
			continue
		}
		r := runSolver(context.Background(), sp, budgetS, file)
		if r.status != "sat" {
			return nil
		}
		return parseGetValue(r.out, terms)
	}
	return nil
}

// parseGetValue parses "((t1 v1) (t2 v2) ...)" after the first line.
func parseGetValue(out string, terms []string) map[string]string {
	i := strings.Index(out, "\n")
	if i < 0 {
		return nil
	}
	body := strings.TrimSpace(out[i+1:])
	if !strings.HasPrefix(body, "(") {
		return nil
	}
	j := matchBracket(body, 0)
	if j < 0 {
		return nil
	}
	pairs := splitArgs(body[1:j])
	res := map[string]string{}
	for k, p := range pairs {
		if k >= len(terms) || !strings.HasPrefix(p, "(") {
			continue
		}
		kv := splitArgs(p[1 : len(p)-1])
		if len(kv) >= 2 {
			res[terms[k]] = strings.Join(kv[1:], " ")
		}
	}
	return res
}

// smtStringToGo decodes an SMT-LIB string literal into Go bytes.
func smtStringToGo(lit string) (string, bool) {
	if len(lit) < 2 || lit[0] != '"' || lit[len(lit)-1] != '"' {
		return "", false
	}
	s := lit[1 : len(lit)-1]
	var b []byte
	for i := 0; i < len(s); i++ {
		switch {
		case s[i] == '"' && i+1 < len(s) && s[i+1] == '"':
			b = append(b, '"')
			i++
		case s[i] == '\\' && i+2 < len(s) && s[i+1] == 'u' && s[i+2] == '{':
			j := strings.IndexByte(s[i:], '}')
			if j < 0 {
				return "", false
			}
			n, err := strconv.ParseUint(s[i+3:i+j], 16, 32)
			if err != nil {
				return "", false
			}
			b = append(b, byte(n&0xff)) // unread positions may hold a code point above 255
			i += j
		case s[i] == '\\' && i+1 < len(s) && s[i+1] == 'x' && i+3 < len(s):
			n, err := strconv.ParseUint(s[i+2:i+4], 16, 8)
			if err != nil {
				return "", false
			}
			b = append(b, byte(n))
			i += 3
		default:
			b = append(b, s[i])
		}
	}
	return string(b), true
}

func smtIntToGo(v string) (int64, bool) {
	v = strings.TrimSpace(v)
	if n, ok := isIntLit(v); ok {
		return n, true
	}
	if strings.HasPrefix(v, "(-") {
		t := strings.TrimSpace(strings.TrimSuffix(strings.TrimPrefix(v, "(-"), ")"))
		if n, err := strconv.ParseInt(t, 10, 64); err == nil {
			return -n, true
		}
	}
	return 0, false
}

// goLiteral renders the model value of one parameter as a Go expression.
func (e *Engine) goLiteral(p paramInfo, vals map[string]string) (string, bool) {
	switch u := under(p.T).(type) {
	case *types.Basic:
		v, ok := vals[p.Term]
		if !ok {
			// not constrained by the failed goal: any value will do
			switch {
			case u.Info()&types.IsString != 0:
				return `""`, true
			case u.Info()&types.IsBoolean != 0:
				return "false", true
			case u.Info()&types.IsInteger != 0:
				return fmt.Sprintf("%s(0)", types.TypeString(p.T, func(*types.Package) string { return "" })), true
			}
			return "", false
		}
		switch {
		case u.Info()&types.IsString != 0:
			s, ok := smtStringToGo(v)
			if !ok {
				return "", false
			}
			return strconv.Quote(s), true
		case u.Info()&types.IsBoolean != 0:
			return v, v == "true" || v == "false"
		case u.Info()&types.IsInteger != 0:
			n, ok := smtIntToGo(v)
			if !ok {
				return "", false
			}
			return fmt.Sprintf("%s(%d)", types.TypeString(p.T, func(*types.Package) string { return "" }), n), true
		}
	case *types.Slice:
		if b, ok := under(u.Elem()).(*types.Basic); ok && b.Info()&types.IsString != 0 {
			srt := e.sortOf(p.T)
			lv, have := vals[fmt.Sprintf("(len_%s %s)", srt, p.Term)]
			if !have {
				return "[]string{}", true
			}
			ln, ok := smtIntToGo(lv)
			if !ok || ln < 0 || ln > 8 {
				return "", false
			}
			var elems []string
			for i := int64(0); i < ln; i++ {
				s, ok := smtStringToGo(vals[fmt.Sprintf("(select %s_base %d)", p.Term, i)])
				if !ok {
					return "", false
				}
				elems = append(elems, strconv.Quote(s))
			}
			return "[]string{" + strings.Join(elems, ", ") + "}", true
		}
	}
	return "", false
}

func (e *Engine) modelTerms(ps []paramInfo) []string {
	var terms []string
	for _, p := range ps {
		switch u := under(p.T).(type) {
		case *types.Basic:
			terms = append(terms, p.Term)
		case *types.Slice:
			if b, ok := under(u.Elem()).(*types.Basic); ok && b.Info()&types.IsString != 0 {
				srt := e.sortOf(p.T)
				terms = append(terms, fmt.Sprintf("(len_%s %s)", srt, p.Term))
				for i := 0; i < 8; i++ {
					terms = append(terms, fmt.Sprintf("(select %s_base %d)", p.Term, i))
				}
			}
		}
	}
	return terms
}

func replayable(c *FuncCtx) bool {
	if c == nil || c.decl == nil || c.decl.Recv != nil {
		return false
	}
	for _, p := range c.paramList {
		switch u := under(p.T).(type) {
		case *types.Basic:
			if u.Info()&(types.IsString|types.IsBoolean|types.IsInteger) == 0 {
				return false
			}
		case *types.Slice:
			b, ok := under(u.Elem()).(*types.Basic)
			if !ok || b.Info()&types.IsString == 0 {
				return false
			}
		default:
			return false
		}
	}
	return true
}

// replay writes the replay file for a failed obligation and tries to confirm
// the failure on the real code.
func (e *Engine) replay(o *Obligation, prop, dir, repo string) (path string, confirmed bool) {
	n := 1
	for {
		path = filepath.Join(dir, fmt.Sprintf("%s-%d.json", sanitize(o.Name), n))
		if _, err := os.Stat(path); err != nil {
			break
		}
		n++
	}
	rf := &replayFile{Property: prop, Obligation: o.Name, Kind: o.Kind, Function: o.Fn, Pos: o.Pos, Clause: o.Text,
		Status: o.Status, Solver: o.Solver, Outputs: o.Outputs}
	defer func() {
		if !confirmed && o.ctx != nil {
			// no replayable model: look for a failing input among a fixed pool
			// of small ones (bounded; see search.go)
			if h := e.boundedSearch(o.ctx, prop, repo); h != nil {
				confirmed = true
				rf.Model = h.Model
				rf.TestSource = h.Source
				rf.Command = h.Cmd
				rf.Observed = h.Obs
				rf.Explanation = h.Why
				rf.Bounded = true
			}
		}
		rf.Confirmed = confirmed
		rf.NoInput = !confirmed
		writeJSON(path, rf)
	}()
	if o.Status != "failed" {
		rf.Explanation = "the obligation could not be discharged (" + o.Status + "); no counterexample model is available"
		return path, false
	}
	c := o.ctx
	if !replayable(c) {
		rf.Explanation = "counterexample model found, but the function takes parser state (pointers into the option/group/command structures); the model is over the abstract heap and is not replayed"
		rf.Model = map[string]string{"raw": firstLines(summariseModel(o.Model), 40)}
		return path, false
	}
	work, _ := os.MkdirTemp("", "govc-replay-")
	defer os.RemoveAll(work)
	vals := e.modelValues(o, e.modelTerms(c.paramList), work, 20)
	if vals == nil {
		rf.Explanation = "the solver did not produce values for the parameters"
		return path, false
	}
	rf.Model = map[string]string{}
	var args []string
	for _, p := range c.paramList {
		lit, ok := e.goLiteral(p, vals)
		if !ok {
			rf.Explanation = "model value of parameter " + p.Name + " could not be turned into a Go literal"
			return path, false
		}
		rf.Model[p.Name] = lit
		args = append(args, lit)
	}
	src, nres := e.replayTestSource(c, args)
	rf.TestSource = src
	obs, cmdline, err := runOverlayTest(repo, work, src)
	rf.Command = cmdline
	rf.Observed = obs
	if err != nil {
		rf.Explanation = "replay test could not be run: " + err.Error()
		return path, false
	}
	var res struct {
		Panic   string            `json:"panic"`
		Results []json.RawMessage `json:"results"`
	}
	line := ""
	for _, l := range strings.Split(obs, "\n") {
		if strings.HasPrefix(l, "GOVC-REPLAY ") {
			line = strings.TrimPrefix(l, "GOVC-REPLAY ")
		}
	}
	if line == "" || json.Unmarshal([]byte(line), &res) != nil {
		rf.Explanation = "replay test produced no result line"
		return path, false
	}
	if o.Kind == "safe" || o.Kind == "ovf" {
		if res.Panic != "" {
			confirmed = true
			rf.Explanation = "the real function panics on the model's input: " + res.Panic
		} else {
			rf.Explanation = "the real function does not panic on the model's input (the counterexample lives in the abstraction)"
		}
		return path, confirmed
	}
	if res.Panic != "" {
		confirmed = true
		rf.Explanation = "the real function panics on the model's input: " + res.Panic
		return path, true
	}
	if o.Clause == nil || o.Kind != "post" || len(res.Results) != nres {
		rf.Explanation = "results observed; the failed obligation is not a postcondition, so it cannot be evaluated on them"
		return path, false
	}
	ok, why := e.evalClauseConcrete(c, o.Clause, rf.Model, res.Results, work)
	rf.Explanation = why
	confirmed = ok
	return path, confirmed
}

// replayTestSource generates the in-package test that calls the real function.
func (e *Engine) replayTestSource(c *FuncCtx, args []string) (string, int) {
	fn := e.info.Defs[c.decl.Name].(*types.Func)
	sig := fn.Type().(*types.Signature)
	var b strings.Builder
	b.WriteString("package flags\n\nimport (\n\t\"encoding/json\"\n\t\"fmt\"\n\t\"testing\"\n)\n\n")
	b.WriteString("func TestGovcReplay(t *testing.T) {\n")
	b.WriteString("\tout := map[string]interface{}{}\n")
	b.WriteString("\tdefer func() {\n\t\tif r := recover(); r != nil {\n\t\t\tout[\"panic\"] = fmt.Sprint(r)\n\t\t}\n\t\tb, _ := json.Marshal(out)\n\t\tfmt.Printf(\"GOVC-REPLAY %s\\n\", b)\n\t}()\n")
	n := sig.Results().Len()
	var rs []string
	for i := 0; i < n; i++ {
		rs = append(rs, fmt.Sprintf("r%d", i))
	}
	call := c.decl.Name.Name + "(" + strings.Join(args, ", ") + ")"
	if sig.Variadic() && len(args) > 0 {
		call = c.decl.Name.Name + "(" + strings.Join(args[:len(args)-1], ", ")
		if len(args) > 1 {
			call += ", "
		}
		call += args[len(args)-1] + "...)"
	}
	if n > 0 {
		fmt.Fprintf(&b, "\t%s := %s\n", strings.Join(rs, ", "), call)
	} else {
		fmt.Fprintf(&b, "\t%s\n", call)
	}
	b.WriteString("\tvar results []interface{}\n")
	for i := 0; i < n; i++ {
		rt := sig.Results().At(i).Type()
		switch u := under(rt).(type) {
		case *types.Pointer:
			if bb, ok := under(u.Elem()).(*types.Basic); ok && bb.Info()&types.IsString != 0 {
				fmt.Fprintf(&b, "\tif r%d == nil {\n\t\tresults = append(results, map[string]interface{}{\"nil\": true})\n\t} else {\n\t\tresults = append(results, map[string]interface{}{\"nil\": false, \"bytes\": []byte(*r%d)})\n\t}\n", i, i)
				continue
			}
			fmt.Fprintf(&b, "\tresults = append(results, r%d == nil)\n", i)
		case *types.Basic:
			if u.Info()&types.IsString != 0 {
				fmt.Fprintf(&b, "\tresults = append(results, map[string]interface{}{\"bytes\": []byte(r%d)})\n", i)
			} else {
				fmt.Fprintf(&b, "\tresults = append(results, r%d)\n", i)
			}
		case *types.Interface:
			fmt.Fprintf(&b, "\tif r%d == nil {\n\t\tresults = append(results, map[string]interface{}{\"nil\": true})\n\t} else {\n\t\tresults = append(results, map[string]interface{}{\"nil\": false, \"text\": fmt.Sprint(r%d), \"type\": fmt.Sprintf(\"%%T\", r%d)})\n\t}\n", i, i, i)
		default:
			fmt.Fprintf(&b, "\tresults = append(results, fmt.Sprint(r%d))\n", i)
		}
	}
	b.WriteString("\tout[\"results\"] = results\n}\n")
	return b.String(), n
}

func runOverlayTest(repo, work, src string) (string, string, error) {
	testFile := filepath.Join(work, "zz_govc_replay_test.go")
	if err := os.WriteFile(testFile, []byte(src), 0o644); err != nil {
		return "", "", err
	}
	ov := map[string]interface{}{"Replace": map[string]string{filepath.Join(repo, "zz_govc_replay_test.go"): testFile}}
	ovb, _ := json.Marshal(ov)
	ovFile := filepath.Join(work, "overlay.json")
	os.WriteFile(ovFile, ovb, 0o644)
	ctx, cancel := context.WithTimeout(context.Background(), 120*time.Second)
	defer cancel()
	args := []string{"test", "-v", "-overlay", ovFile, "-vet=off", "-timeout", "60s", "-count=1", "-run", "^TestGovcReplay$", "."}
	cmd := exec.CommandContext(ctx, "go", args...)
	cmd.Dir = repo
	cmd.Env = append(os.Environ(), "GOFLAGS=-mod=mod", "GOPROXY=off", "GOSUMDB=off", "GOTOOLCHAIN=local")
	out, err := cmd.CombinedOutput()
	cmdline := "cd " + repo + " && go " + strings.Join(args, " ")
	if err != nil && !strings.Contains(string(out), "GOVC-REPLAY") {
		return string(out), cmdline, fmt.Errorf("%v", err)
	}
	return string(out), cmdline, nil
}

// evalClauseConcrete evaluates a postcondition on concrete arguments and the
// observed results: the clause is translated with the header names bound to
// literals and the solver decides the resulting closed formula.
func (e *Engine) evalClauseConcrete(c *FuncCtx, cl *Clause, model map[string]string, results []json.RawMessage, work string) (bool, string) {
	val, why := e.clauseValue(c, cl, model, results, work)
	switch val {
	case "false":
		return true, "the failed clause is FALSE on the results the real function returned for this input (" + why + ")"
	case "true":
		return false, "the clause HOLDS on the results the real function returned for the model's input: the counterexample lives in the abstraction (imprecise contract of a callee or library function)"
	}
	return false, why
}

// clauseValue evaluates a requires/ensures clause on concrete arguments (and
// results, for a postcondition): the clause is translated with the header
// names bound to literals.  "false" means the clause is unsatisfiable as it
// stands - false under EVERY interpretation of the uninterpreted library
// functions it may mention - and "true" that its negation is; anything else is
// "unknown".
func (e *Engine) clauseValue(c *FuncCtx, cl *Clause, model map[string]string, results []json.RawMessage, work string) (string, string) {
	fn := e.info.Defs[c.decl.Name].(*types.Func)
	sig := fn.Type().(*types.Signature)
	sc := &FuncCtx{eng: e, key: c.key + "$replay", decl: c.decl, contract: c.contract, heapLocals: map[*types.Var]bool{}, mapOwned: map[*types.Var]bool{}, params: map[*types.Var]bool{}}
	st := &State{vars: map[*types.Var]*Val{}, heap: map[string]string{}, bound: map[string]*Val{}, facts: map[string]bool{}}
	env := map[string]*Val{}
	val, why := "unknown", "the solvers could not evaluate the clause on the concrete values"
	func() {
		defer func() {
			if r := recover(); r != nil {
				if el, ok := r.(engineLimit); ok {
					val, why = "unknown", "clause could not be evaluated on concrete values: "+el.msg
					return
				}
				panic(r)
			}
		}()
		var args []*Val
		for _, p := range c.paramList {
			v, ok := e.concreteFromGo(sc, model[p.Name], p.T)
			if !ok {
				limitf("argument %s", p.Name)
			}
			args = append(args, v)
		}
		for k, v := range bindHeader(c.contract, nil, args) {
			env[k] = v
		}
		if results != nil {
			names := headerResults(c.contract)
			for i := 0; i < sig.Results().Len(); i++ {
				v, ok := e.concreteFromJSON(sc, results[i], sig.Results().At(i).Type())
				if !ok {
					limitf("result %d", i)
				}
				if i < len(names) && names[i] != "" {
					env[names[i]] = v
				}
				if sig.Results().Len() == 1 {
					env["$result"] = v
				}
			}
		}
		for _, l := range c.contract.clauses("let") {
			saved := st.bound
			nb := map[string]*Val{"$spec": {S: "1"}}
			for k, v := range env {
				nb[k] = v
			}
			st.bound = nb
			sc.bindLet(st, l, env)
			st.bound = saved
		}
		v := sc.evalSpecAt(st, cl.Expr, c.decl.Body.Rbrace, env)
		decide := func(goal string) string {
			o := &Obligation{Fn: sc.key, Name: "replay", Kind: "post", PC: st.pc, Goal: goal, ctx: sc}
			q := e.buildQuery(o, false)
			file := filepath.Join(work, "replay-clause.smt2")
			os.WriteFile(file, []byte(q), 0o644)
			for _, sp := range solvers {
				r := runSolver(context.Background(), sp, 10, file)
				if r.status == "unsat" {
					return r.solver
				}
				if r.status == "sat" {
					return ""
				}
			}
			return ""
		}
		// buildQuery asserts the negation of the goal
		if s := decide(mkNot(v.S)); s != "" {
			val, why = "false", "decided by "+s
			return
		}
		if s := decide(v.S); s != "" {
			val, why = "true", "decided by "+s
			return
		}
	}()
	return val, why
}

// preconditionsHold: every requires clause of the contract is true of the
// concrete arguments.
func (e *Engine) preconditionsHold(c *FuncCtx, model map[string]string, work string) bool {
	for _, cl := range c.contract.clauses("requires") {
		if v, _ := e.clauseValue(c, cl, model, nil, work); v != "true" {
			return false
		}
	}
	return true
}

func (e *Engine) concreteFromGo(c *FuncCtx, lit string, t types.Type) (*Val, bool) {
	switch u := under(t).(type) {
	case *types.Basic:
		switch {
		case u.Info()&types.IsString != 0:
			s, err := strconv.Unquote(lit)
			if err != nil {
				return nil, false
			}
			return &Val{T: t, S: smtString(s), Sort: "String"}, true
		case u.Info()&types.IsBoolean != 0:
			return &Val{T: t, S: lit, Sort: "Bool"}, true
		case u.Info()&types.IsInteger != 0:
			i := strings.Index(lit, "(")
			n, err := strconv.ParseInt(strings.TrimSuffix(lit[i+1:], ")"), 10, 64)
			if err != nil {
				return nil, false
			}
			return &Val{T: t, S: mkInt(n), Sort: "Int"}, true
		}
	case *types.Slice:
		// []string{"a", "b"}
		srt := e.sortOf(t)
		body := strings.TrimSuffix(strings.TrimPrefix(lit, "[]string{"), "}")
		arr := `((as const (Array Int String)) "")`
		n := 0
		if strings.TrimSpace(body) != "" {
			for _, part := range splitTop(body, ',') {
				s, err := strconv.Unquote(strings.TrimSpace(part))
				if err != nil {
					return nil, false
				}
				arr = mkStore(arr, mkInt(int64(n)), smtString(s))
				n++
			}
		}
		return &Val{T: t, S: app("mk_"+srt, arr, "0", mkInt(int64(n)), tFalse), Sort: srt}, true
	}
	return nil, false
}

func (e *Engine) concreteFromJSON(c *FuncCtx, raw json.RawMessage, t types.Type) (*Val, bool) {
	switch u := under(t).(type) {
	case *types.Basic:
		switch {
		case u.Info()&types.IsString != 0:
			var m struct {
				Bytes []byte `json:"bytes"`
			}
			if json.Unmarshal(raw, &m) != nil {
				return nil, false
			}
			return &Val{T: t, S: smtString(string(m.Bytes)), Sort: "String"}, true
		case u.Info()&types.IsBoolean != 0:
			return &Val{T: t, S: strings.TrimSpace(string(raw)), Sort: "Bool"}, true
		case u.Info()&types.IsInteger != 0:
			n, err := strconv.ParseInt(strings.TrimSpace(string(raw)), 10, 64)
			if err != nil {
				return nil, false
			}
			return &Val{T: t, S: mkInt(n), Sort: "Int"}, true
		}
	case *types.Pointer:
		var m struct {
			Nil   bool   `json:"nil"`
			Bytes []byte `json:"bytes"`
		}
		if json.Unmarshal(raw, &m) != nil {
			return nil, false
		}
		srt := e.sortOf(t)
		if m.Nil {
			return &Val{T: t, S: "none_" + srt, Sort: srt}, true
		}
		return &Val{T: t, S: app("some_"+srt, smtString(string(m.Bytes))), Sort: srt}, true
	}
	return nil, false
}

// cmdReplay: govc replay <file>.  A replay file with a concrete input runs the
// recorded in-package test again on the current tree (go test -overlay); any
// replay file re-generates and re-discharges the named obligation.  Exit 1 if
// the obligation still fails.
func cmdReplay(args []string) {
	if len(args) < 1 {
		fmt.Fprintln(os.Stderr, "usage: govc replay <file> [-repo dir]")
		os.Exit(2)
	}
	repo := "/repo"
	if len(args) >= 3 && args[1] == "-repo" {
		repo = args[2]
	}
	b, err := os.ReadFile(args[0])
	if err != nil {
		fmt.Fprintln(os.Stderr, "govc replay:", err)
		os.Exit(2)
	}
	var rf replayFile
	if err := json.Unmarshal(b, &rf); err != nil {
		fmt.Fprintln(os.Stderr, "govc replay:", err)
		os.Exit(2)
	}
	fmt.Printf("property %s, obligation %s\n  %s\n", rf.Property, rf.Obligation, rf.Clause)
	if rf.Explanation != "" {
		fmt.Println("  recorded:", rf.Explanation)
	}
	if rf.TestSource != "" {
		work, _ := os.MkdirTemp("", "govc-replay-")
		defer os.RemoveAll(work)
		obs, cmdline, err := runOverlayTest(repo, work, rf.TestSource)
		fmt.Println("  concrete input:", rf.Model)
		fmt.Println("  command:", cmdline)
		if err != nil {
			fmt.Println("  replay test could not be run:", err)
		}
		for _, l := range strings.Split(obs, "\n") {
			if strings.HasPrefix(l, "GOVC-REPLAY") {
				fmt.Println("  observed now:", l)
			}
		}
	}
	fn := rf.Function
	if fn == "" {
		if i := strings.LastIndex(rf.Obligation, "."); i > 0 {
			fn = rf.Obligation[:i]
		}
	}
	e, err := loadEngine(repo, filepath.Join(repo, "contracts_verif.go"))
	if err != nil {
		fmt.Fprintln(os.Stderr, "govc replay:", err)
		os.Exit(2)
	}
	lemmas := e.translateFacts()
	var obls []*Obligation
	if fn == "$lemma" {
		obls = lemmas
	} else {
		c := e.verifyFunc(fn)
		if c.limit != "" {
			fmt.Printf("  the obligations of %s cannot be generated on the current tree: %s\n", fn, c.limit)
			os.Exit(1)
		}
		obls = c.obls
	}
	var sel []*Obligation
	for _, o := range obls {
		if o.Name == rf.Obligation {
			sel = append(sel, o)
		}
	}
	if len(sel) == 0 {
		fmt.Printf("  no obligation named %s is generated on the current tree\n", rf.Obligation)
		os.Exit(1)
	}
	work, _ := os.MkdirTemp("", "govc-replay-q-")
	defer os.RemoveAll(work)
	e.dischargeAll(sel, work, 10, 8)
	bad := 0
	for _, o := range sel {
		if o.Status != "proved" {
			bad++
			fmt.Printf("  on the current tree: %s (%s, %.1fs)\n", o.Status, o.Solver, o.TimeS)
		}
	}
	if bad > 0 {
		os.Exit(1)
	}
	fmt.Printf("  on the current tree: discharged (%d instance(s))\n", len(sel))
}
