package main

// Ghost state:  //@ ghost out(w io.Writer) string  declares a map from w to a
// string that exists only in specifications. Assumed contracts change it
// through "assigns out(w)" + ensures; specifications read it as out(w).

import (
	"fmt"
	"go/ast"
	"go/types"
	"sort"
)

func ghostKey(name string) string { return "ghost." + name }

func (c *FuncCtx) ghostSorts(name string) (types.Type, types.Type) {
	fd := c.eng.spec.Ghosts[name]
	pt := c.resolveSpecType(fd.Type.Params.List[0].Type)
	rt := c.resolveSpecType(fd.Type.Results.List[0].Type)
	return pt, rt
}

func (c *FuncCtx) ghostArr(st *State, name string) string {
	k := ghostKey(name)
	if a, ok := st.heap[k]; ok {
		return a
	}
	pt, rt := c.ghostSorts(name)
	srt := fmt.Sprintf("(Array %s %s)", c.eng.sortOf(pt), c.eng.sortOf(rt))
	n := "G_" + name
	c.declOnce(n, srt)
	c.noteKeySort(k, srt)
	st.heap[k] = n
	return n
}

func (c *FuncCtx) ghostRead(st *State, name string, x *ast.CallExpr) *Val {
	pt, rt := c.ghostSorts(name)
	idx := c.coerce(st, c.eval(st, x.Args[0]), pt)
	return c.val(mkSel(c.ghostArr(st, name), idx.S), rt)
}

// ghostHavoc forgets the ghost cell name(arg) (or the whole map if arg is nil).
func (c *FuncCtx) ghostHavoc(st *State, name string, arg ast.Expr) {
	pt, rt := c.ghostSorts(name)
	arr := c.ghostArr(st, name)
	k := ghostKey(name)
	if arg == nil {
		st.heap[k] = c.fresh("G_"+name, fmt.Sprintf("(Array %s %s)", c.eng.sortOf(pt), c.eng.sortOf(rt)))
		return
	}
	idx := c.coerce(st, c.eval(st, arg), pt)
	nv := c.fresh("gv_"+name, c.eng.sortOf(rt))
	st.heap[k] = c.shareTerm(st, mkStore(arr, idx.S, nv), fmt.Sprintf("(Array %s %s)", c.eng.sortOf(pt), c.eng.sortOf(rt)), "G_"+name)
}

func (e *Engine) isGhost(name string) bool {
	_, ok := e.spec.Ghosts[name]
	return ok
}

// zeroGhosts: a freshly created (zero) object has zero ghost state - every
// ghost map declared over v's type holds the zero value at v.
func (c *FuncCtx) zeroGhosts(st *State, v *Val) {
	if c.inSpec(st) {
		return
	}
	names := make([]string, 0, len(c.eng.spec.Ghosts))
	for name := range c.eng.spec.Ghosts {
		names = append(names, name)
	}
	sort.Strings(names)
	for _, name := range names {
		pt, rt := c.ghostSorts(name)
		if !types.Identical(pt, v.T) {
			continue
		}
		arr := c.ghostArr(st, name)
		k := ghostKey(name)
		st.heap[k] = c.shareTerm(st, mkStore(arr, v.S, c.eng.zero(rt)), fmt.Sprintf("(Array %s %s)", c.eng.sortOf(pt), c.eng.sortOf(rt)), "G_"+name)
	}
}
