package main

import (
	"fmt"
	"go/ast"
	"go/token"
	"go/types"
	"os"
	"strconv"
	"strings"
)

var iteratorNames = map[string]bool{"eachGroup": true, "eachCommand": true, "eachOption": true, "eachActiveGroup": true}

func (e *Engine) newCtx(key string) *FuncCtx {
	fd := e.funcs[key]
	c := &FuncCtx{eng: e, key: key, decl: fd, contract: e.spec.Contracts[key],
		loopOrd: map[ast.Node]int{}, heapLocals: map[*types.Var]bool{}, mapOwned: map[*types.Var]bool{},
		params: map[*types.Var]bool{}, lets: map[string]*Val{}}
	if c.contract != nil {
		c.props = c.contract.Props
		c.noMerge = c.contract.NoMerge
	}
	if fd == nil {
		return c
	}
	c.renames = e.renamesFor(key, fd)
	// local slices that were assigned from an existing slice (a variable, an
	// element of a slice of slices, a sub-slice) share a backing array with it:
	// the value model of slices cannot follow an element write through them
	c.sliceAlias = map[*types.Var]bool{}
	fresh := func(x ast.Expr) bool {
		switch y := ast.Unparen(x).(type) {
		case *ast.CompositeLit:
			return true
		case *ast.CallExpr:
			return true // make, append, conversions and calls return fresh values in this model
		case *ast.Ident:
			return y.Name == "nil"
		}
		return false
	}
	ast.Inspect(fd.Body, func(x ast.Node) bool {
		as, ok := x.(*ast.AssignStmt)
		if !ok || len(as.Lhs) != len(as.Rhs) {
			return true
		}
		for i, l := range as.Lhs {
			id, ok := l.(*ast.Ident)
			if !ok {
				continue
			}
			v, _ := e.info.Defs[id].(*types.Var)
			if v == nil {
				v, _ = e.info.Uses[id].(*types.Var)
			}
			if v == nil {
				continue
			}
			if _, isSl := under(v.Type()).(*types.Slice); isSl && !fresh(as.Rhs[i]) {
				c.sliceAlias[v] = true
			}
		}
		return true
	})
	// loop ordinals: for / range statements and iterator-closure calls, in
	// source order
	n := 0
	ast.Inspect(fd.Body, func(x ast.Node) bool {
		switch s := x.(type) {
		case *ast.ForStmt, *ast.RangeStmt:
			n++
			c.loopOrd[s] = n
		case *ast.CallExpr:
			if sel, ok := s.Fun.(*ast.SelectorExpr); ok && iteratorNames[sel.Sel.Name] {
				for _, a := range s.Args {
					if _, ok := a.(*ast.FuncLit); ok {
						n++
						c.loopOrd[s] = n
					}
				}
			}
		}
		return true
	})
	// a "loop N ..." clause for a loop the function does not have would
	// silently constrain nothing
	if c.contract != nil {
		for _, cl := range c.contract.Clauses {
			if (cl.Kind == "invariant" || cl.Kind == "decreases" || cl.Kind == "peel" || cl.Kind == "exit") && cl.Loop > n {
				c.limit = fmt.Sprintf("'loop %d ...' clause but the function has %d loops", cl.Loop, n)
			}
		}
	}
	// call ordinals per callee key (source order), for "at call K #n" clauses
	c.callOrd = map[*ast.CallExpr]int{}
	counts := map[string]int{}
	ast.Inspect(fd.Body, func(x ast.Node) bool {
		if ce, ok := x.(*ast.CallExpr); ok {
			if k := c.calleeKey(ce); k != "" {
				counts[k]++
				c.callOrd[ce] = counts[k]
			}
		}
		return true
	})
	// an "at call" clause that matches no call site would silently assert nothing
	c.atLit = map[*Clause]*ast.CallExpr{}
	if c.contract != nil {
		for _, cl := range c.contract.Clauses {
			if cl.Kind == "at" && cl.HasLit {
				var hits []*ast.CallExpr
				ast.Inspect(fd.Body, func(x ast.Node) bool {
					ce, ok := x.(*ast.CallExpr)
					if !ok || c.calleeKey(ce) != cl.Name {
						return true
					}
					for _, a := range ce.Args {
						if bl, ok := ast.Unparen(a).(*ast.BasicLit); ok && bl.Kind == token.STRING {
							if sv, err := strconv.Unquote(bl.Value); err == nil && sv == cl.Lit {
								hits = append(hits, ce)
								return true
							}
						}
					}
					// ... or whose argument list reads exactly like the text (locals
					// under their recorded names, so a pure renaming keeps the address)
					if c.argText(ce) == cl.Lit {
						hits = append(hits, ce)
					}
					return true
				})
				if len(hits) != 1 {
					c.limit = fmt.Sprintf("'at call %s %q' matches %d call sites (exactly one expected)", cl.Name, cl.Lit, len(hits))
				} else {
					c.atLit[cl] = hits[0]
				}
				continue
			}
			if cl.Kind == "at" && counts[cl.Name] < cl.Loop {
				c.limit = fmt.Sprintf("'at call %s #%d' matches no call site (the function has %d such calls)", cl.Name, cl.Loop, counts[cl.Name])
			}
		}
	}
	// address-taken struct locals live in the heap
	ast.Inspect(fd.Body, func(x ast.Node) bool {
		switch s := x.(type) {
		case *ast.UnaryExpr:
			if s.Op == token.AND {
				if id, ok := ast.Unparen(s.X).(*ast.Ident); ok {
					if v, ok := e.info.Uses[id].(*types.Var); ok && e.isHeapStruct(v.Type()) {
						c.heapLocals[v] = true
					}
				}
			}
		case *ast.CallExpr:
			if sel, ok := s.Fun.(*ast.SelectorExpr); ok {
				if selection, ok := e.info.Selections[sel]; ok {
					if fn, ok := selection.Obj().(*types.Func); ok {
						if recv := fn.Type().(*types.Signature).Recv(); recv != nil {
							if _, wantPtr := recv.Type().(*types.Pointer); wantPtr {
								if id, ok := ast.Unparen(sel.X).(*ast.Ident); ok {
									if v, ok := e.info.Uses[id].(*types.Var); ok && e.isHeapStruct(v.Type()) {
										if _, isPtr := under(v.Type()).(*types.Pointer); !isPtr {
											c.heapLocals[v] = true
										}
									}
								}
							}
						}
					}
				}
			}
		case *ast.AssignStmt:
			// maps created here by make / literal are owned
			if len(s.Lhs) == len(s.Rhs) {
				for i, l := range s.Lhs {
					id, ok := l.(*ast.Ident)
					if !ok {
						continue
					}
					v, _ := e.info.Defs[id].(*types.Var)
					if v == nil {
						v, _ = e.info.Uses[id].(*types.Var)
					}
					if v == nil {
						continue
					}
					if _, isMap := under(v.Type()).(*types.Map); !isMap {
						continue
					}
					if isFreshMapExpr(e, s.Rhs[i]) {
						if _, seen := c.mapOwned[v]; !seen {
							c.mapOwned[v] = true
						}
					} else {
						c.mapOwned[v] = false
					}
				}
			}
		case *ast.ValueSpec:
			for i, id := range s.Names {
				v, _ := e.info.Defs[id].(*types.Var)
				if v == nil {
					continue
				}
				if _, isMap := under(v.Type()).(*types.Map); !isMap {
					continue
				}
				if i < len(s.Values) && isFreshMapExpr(e, s.Values[i]) {
					c.mapOwned[v] = true
				}
			}
		}
		return true
	})
	return c
}

func isFreshMapExpr(e *Engine, x ast.Expr) bool {
	switch y := ast.Unparen(x).(type) {
	case *ast.CompositeLit:
		return true
	case *ast.CallExpr:
		if id, ok := y.Fun.(*ast.Ident); ok {
			if b, ok := e.info.Uses[id].(*types.Builtin); ok && b.Name() == "make" {
				return true
			}
		}
	}
	return false
}

// verifyKey: a key "body:K" verifies the body of K against its body-only
// contract (callers of K keep the assumed one); any other key is verifyFunc.
func (e *Engine) verifyKey(key string) *FuncCtx {
	if !strings.HasPrefix(key, "body:") {
		return e.verifyFunc(key)
	}
	k := strings.TrimPrefix(key, "body:")
	saved, had := e.spec.Contracts[k]
	e.spec.Contracts[k] = e.spec.Bodies[k]
	defer func() {
		if had {
			e.spec.Contracts[k] = saved
		} else {
			delete(e.spec.Contracts, k)
		}
	}()
	return e.verifyFunc(k)
}

// verifyFunc symbolically executes one function against its contract and
// returns the context holding the generated obligations.
func (e *Engine) verifyFunc(key string) (ctx *FuncCtx) {
	c := e.newCtx(key)
	ctx = c
	defer func() {
		if r := recover(); r != nil {
			if el, ok := r.(engineLimit); ok {
				c.limit = el.msg
				return
			}
			// a crash of the generator on this function is a limit of the
			// engine, not the end of the run: the function is reported as one
			// whose obligations could not be generated
			if os.Getenv("GOVC_DEBUG_PANIC") != "" {
				panic(r)
			}
			c.limit = fmt.Sprintf("internal error of the generator: %v", r)
		}
	}()
	fd := c.decl
	if fd == nil {
		limitf("no such function %s", key)
	}
	fn := e.info.Defs[fd.Name].(*types.Func)
	sig := fn.Type().(*types.Signature)
	st := &State{vars: map[*types.Var]*Val{}, heap: map[string]string{}, bound: map[string]*Val{}, facts: map[string]bool{}}
	var recv *Val
	var args []*Val
	mkParam := func(id *ast.Ident, t types.Type) *Val {
		name := "p_" + id.Name
		srt := e.sortOf(t)
		c.declOnce(name, srt)
		v := &Val{T: t, S: name, Sort: srt}
		st.assume(e.typeFacts(name, t))
		if sl, ok := under(t).(*types.Slice); ok {
			// where the window starts inside its backing array is not
			// observable: take offset 0
			bn := name + "_base"
			c.declOnce(bn, fmt.Sprintf("(Array Int %s)", e.sortOf(sl.Elem())))
			v = &Val{T: t, S: app("mk_"+srt, bn, "0", app("len_"+srt, name), app("nil_"+srt, name)), Sort: srt}
		}
		if obj, ok := e.info.Defs[id].(*types.Var); ok && obj != nil {
			if c.heapLocals[obj] {
				// a struct parameter whose address is taken lives in the heap
				ref := c.alloc(st, t)
				c.storeStruct(st, ref, v)
				st.vars[obj] = &Val{T: t, S: ref, Sort: "Int"}
			} else {
				st.vars[obj] = v
			}
			c.params[obj] = true
		}
		c.paramList = append(c.paramList, paramInfo{Name: id.Name, T: t, Term: name})
		return v
	}
	if fd.Recv != nil && len(fd.Recv.List) == 1 {
		f := fd.Recv.List[0]
		if len(f.Names) == 1 {
			recv = mkParam(f.Names[0], sig.Recv().Type())
		} else {
			recv = mkParam(ast.NewIdent("recv"), sig.Recv().Type())
		}
	}
	i := 0
	for _, f := range fd.Type.Params.List {
		if len(f.Names) == 0 {
			args = append(args, mkParam(ast.NewIdent(fmt.Sprintf("arg%d", i)), sig.Params().At(i).Type()))
			i++
		}
		for _, n := range f.Names {
			id := n
			if n.Name == "_" {
				id = ast.NewIdent(fmt.Sprintf("arg%d", i))
			}
			args = append(args, mkParam(id, sig.Params().At(i).Type()))
			i++
		}
	}
	// results
	fr := &frame{decl: fd}
	if fd.Type.Results != nil {
		k := 0
		for _, f := range fd.Type.Results.List {
			if len(f.Names) == 0 {
				rv := types.NewVar(token.NoPos, e.pkg.Types, fmt.Sprintf("$r%d", k), sig.Results().At(k).Type())
				fr.results = append(fr.results, rv)
				st.vars[rv] = c.val(e.zero(rv.Type()), rv.Type())
				k++
			}
			for _, n := range f.Names {
				rv, _ := e.info.Defs[n].(*types.Var)
				if rv == nil {
					rv = types.NewVar(token.NoPos, e.pkg.Types, fmt.Sprintf("$r%d", k), sig.Results().At(k).Type())
				}
				fr.results = append(fr.results, rv)
				st.vars[rv] = c.val(e.zero(rv.Type()), rv.Type())
				k++
			}
		}
	}
	c.results = fr.results
	st.frame = fr
	entry := st.clone()
	entry.old = nil
	st.old = entry
	c.entry = entry

	// spec environment: header names -> entry values
	specEnv := map[string]*Val{}
	if c.contract != nil {
		for k, v := range bindHeader(c.contract, recv, args) {
			specEnv[k] = v
		}
	} else {
		// no contract: real names
		if recv != nil && fd.Recv.List[0].Names != nil {
			specEnv[fd.Recv.List[0].Names[0].Name] = recv
		}
	}
	c.specEnv = specEnv

	if c.contract != nil {
		for _, cl := range c.contract.Clauses {
			switch cl.Kind {
			case "let":
				saved := st.bound
				nb := map[string]*Val{"$spec": {S: "1"}, "$pos": {S: strconv.Itoa(int(fd.Body.Lbrace))}}
				for k, v := range specEnv {
					nb[k] = v
				}
				st.bound = nb
				c.bindLet(st, cl, specEnv)
				st.bound = saved
			case "requires":
				v := c.evalSpecAt(st, cl.Expr, fd.Body.Lbrace, specEnv)
				st.assume(v.forAssume())
			}
		}
		// vacuity guard: the preconditions together must be satisfiable
		if len(c.contract.clauses("requires")) > 0 {
			c.obls = append(c.obls, &Obligation{Fn: key, Name: key + ".cover.requires", Kind: "cover", Pos: e.posStr(fd.Pos()), Tags: c.props, PC: st.pc, Goal: tFalse, ctx: c, Text: "preconditions are satisfiable"})
		}
	}
	// the entry snapshot for old() must include the assumed preconditions' pc
	entry.pc = st.pc

	outs := c.execBlock(st, fd.Body.List)
	// vacuity guard: some path through the body reaches a return
	if c.contract != nil {
		var alts []string
		for _, o := range outs {
			if o.st.dead {
				continue
			}
			alts = append(alts, mkAnd(o.st.pc.list()...))
			if len(alts) >= 8 {
				break // one satisfiable path is enough; keep the query small
			}
		}
		if len(alts) > 0 {
			c.obls = append(c.obls, &Obligation{Fn: key, Name: key + ".cover.exit", Kind: "cover", Pos: e.posStr(fd.Body.Rbrace), Tags: c.props, PC: (*PC)(nil).push(mkOr(alts...)), Goal: tFalse, ctx: c, Text: "the end of the function is reachable (path conditions are satisfiable)"})
		}
	}
	for _, o := range outs {
		switch o.kind {
		case oNext, oReturn:
			if o.kind == oNext && sig.Results().Len() > 0 {
				// falling off the end of a function with results cannot happen
				continue
			}
			c.checkPost(o.st, specEnv, recv, args)
		default:
			limitf("break/continue escaped function body")
		}
	}
	for _, l := range c.noVariant {
		c.obls = append(c.obls, &Obligation{Fn: key, Name: key + "." + l + ".decr", Kind: "decr", Pos: e.posStr(fd.Pos()), Tags: c.props, Goal: tFalse, PC: nil, ctx: c, Status: "failed", Solver: "generator", Text: "loop has no decreases clause"})
	}
	return c
}

func (c *FuncCtx) checkPost(st *State, specEnv map[string]*Val, recv *Val, args []*Val) {
	if c.contract == nil {
		return
	}
	env := map[string]*Val{}
	for k, v := range specEnv {
		env[k] = v
	}
	names := headerResults(c.contract)
	for i, rv := range c.results {
		if i < len(names) && names[i] != "" {
			env[names[i]] = st.vars[rv]
		}
	}
	if len(c.results) == 1 {
		env["$result"] = st.vars[c.results[0]]
	}
	for i, cl := range c.contract.clauses("ensures") {
		v := c.evalSpecAt(st, cl.Expr, c.decl.Body.Rbrace, env)
		n0 := len(c.obls)
		c.oblige(st, "post", fmt.Sprintf("post%d", i+1), c.decl.Body.Rbrace, v.S, cl.Tags, "ensures "+cl.Text)
		for _, o := range c.obls[n0:] {
			o.Clause = cl
		}
	}
	if len(c.contract.clauses("like")) > 0 {
		var results []*Val
		for _, rv := range c.results {
			results = append(results, st.vars[rv])
		}
		saved := st.bound
		st.bound = map[string]*Val{"$pos": {S: strconv.Itoa(int(c.decl.Body.Rbrace))}}
		c.likeClausesM(st, c.contract, env, results, true, func(cl *Clause, idx int, f, text string) {
			c.oblige(st, "post", fmt.Sprintf("like%d", idx+1), c.decl.Body.Rbrace, f, cl.Tags, text)
		})
		st.bound = saved
	}
	c.checkFrame(st, env)
}

// checkFrame: with an assigns clause, every heap array touched on this path
// must agree with its entry value outside the declared locations.
func (c *FuncCtx) checkFrame(st *State, env map[string]*Val) {
	as := c.contract.clauses("assigns")
	if len(as) == 0 {
		return
	}
	whole := map[string]bool{}
	cells := map[string][]string{}
	for _, cl := range as {
		if cl.Nothing {
			continue
		}
		for _, ex := range cl.Assigns {
			if g, ok := ex.(*ast.CallExpr); ok {
				if gid, ok := g.Fun.(*ast.Ident); ok && c.eng.isGhost(gid.Name) {
					saved := st.bound
					nb := map[string]*Val{"$spec": {S: "1"}, "$pos": {S: strconv.Itoa(int(c.decl.Body.Rbrace))}}
					for k, v := range env {
						nb[k] = v
					}
					st.bound = nb
					pt, _ := c.ghostSorts(gid.Name)
					idx := c.coerce(st, c.evalOld(st, g.Args[0]), pt)
					st.bound = saved
					cells[ghostKey(gid.Name)] = append(cells[ghostKey(gid.Name)], idx.S)
					continue
				}
			}
			if gid, ok := ex.(*ast.Ident); ok && c.eng.isGhost(gid.Name) {
				whole[ghostKey(gid.Name)] = true
				continue
			}
			sel, ok := ex.(*ast.SelectorExpr)
			if !ok {
				limitf("assigns clause must list field locations")
			}
			if id, ok := sel.X.(*ast.Ident); ok {
				if _, isEnv := env[id.Name]; !isEnv {
					if _, ok := c.eng.pkg.Types.Scope().Lookup(id.Name).(*types.TypeName); ok {
						whole[heapKey(id.Name, sel.Sel.Name)] = true
						continue
					}
				}
			}
			// location evaluated in the entry state
			saved := st.bound
			nb := map[string]*Val{"$spec": {S: "1"}, "$pos": {S: strconv.Itoa(int(c.decl.Body.Rbrace))}}
			for k, v := range env {
				nb[k] = v
			}
			st.bound = nb
			base := c.evalOld(st, sel.X)
			sname, fld, ref := c.resolveFieldRef(st, base, sel.Sel.Name, sel.Pos())
			st.bound = saved
			k := heapKey(sname, fld.Name())
			cells[k] = append(cells[k], ref)
		}
	}
	for _, k := range sortedKeys(st.heap) {
		if isTraceKey(k) {
			continue
		}
		cur := st.heap[k]
		entry := entryTermFor(k)
		if cur == entry || whole[k] {
			continue
		}
		r := c.bvar("r")
		rsort := "Int"
		if strings.HasPrefix(k, "ghost.") {
			pt, _ := c.ghostSorts(strings.TrimPrefix(k, "ghost."))
			rsort = c.eng.sortOf(pt)
		}
		var excl []string
		for _, ref := range cells[k] {
			excl = append(excl, mkEq(r, ref))
		}
		// objects allocated by this call are not part of the caller's frame
		if rsort == "Int" && !strings.HasPrefix(k, "ghost.") {
			for _, ref := range st.allocs {
				excl = append(excl, mkEq(r, ref))
			}
		}
		goal := fmt.Sprintf("(forall ((%s %s)) %s)", r, rsort, mkImplies(mkNot(mkOr(excl...)), mkEq(mkSel(cur, r), mkSel(entry, r))))
		c.oblige(st, "frame", "frame."+k, c.decl.Body.Rbrace, goal, nil, "only the declared locations of "+k+" change")
	}
}

// ----------------------------------------------- iterator closures etc. ---

func (c *FuncCtx) execIteratorCall(st *State, call *ast.CallExpr) ([]outcome, bool) {
	sel, ok := call.Fun.(*ast.SelectorExpr)
	if !ok || !iteratorNames[sel.Sel.Name] {
		return nil, false
	}
	var fl *ast.FuncLit
	for _, a := range call.Args {
		if f, ok := a.(*ast.FuncLit); ok {
			fl = f
		}
	}
	if fl == nil {
		return nil, false
	}
	// "at call" clauses attached to the iterator call itself (its other arguments)
	c.atCall(st, call)
	return c.execIterator(st, call, sel, fl), true
}

func (c *FuncCtx) execRangeMap(st *State, x *ast.RangeStmt, coll *Val, li *loopInfo, inv, dec []*Clause) []outcome {
	return c.execRangeMapImpl(st, x, coll, li, inv)
}

// calleeKey: like Engine.calleeKeyOf, and a call of a func-typed parameter or
// local f of the function under verification has the key "<function>.f".
func (c *FuncCtx) calleeKey(ce *ast.CallExpr) string {
	if k := c.eng.calleeKeyOf(ce); k != "" {
		return k
	}
	if id, ok := ast.Unparen(ce.Fun).(*ast.Ident); ok {
		if v, ok := c.eng.info.Uses[id].(*types.Var); ok {
			if _, isSig := under(v.Type()).(*types.Signature); isSig {
				return c.key + "." + id.Name
			}
		}
	}
	return ""
}

// calleeKeyOf: the contract key a call expression resolves to ("" if none).
func (e *Engine) calleeKeyOf(ce *ast.CallExpr) string {
	switch f := ast.Unparen(ce.Fun).(type) {
	case *ast.Ident:
		if fn, ok := e.info.Uses[f].(*types.Func); ok {
			return e.fobjs[fn]
		}
		if b, ok := e.info.Uses[f].(*types.Builtin); ok {
			return b.Name()
		}
	case *ast.SelectorExpr:
		if id, ok := f.X.(*ast.Ident); ok {
			if pn, ok := e.info.Uses[id].(*types.PkgName); ok {
				return pn.Imported().Name() + "." + f.Sel.Name
			}
		}
		if sel, ok := e.info.Selections[f]; ok {
			if fn, ok := sel.Obj().(*types.Func); ok {
				if k, ok := e.fobjs[fn]; ok {
					return k
				}
			}
			return e.externalKey(sel)
		}
	}
	return ""
}

// argText: the argument list of a call as source text, identifiers that are
// renamed locals written under their baseline names.
func (c *FuncCtx) argText(ce *ast.CallExpr) string {
	back := map[string]string{}
	for old, cur := range c.renames {
		back[cur] = old
	}
	var parts []string
	for _, a := range ce.Args {
		t := types.ExprString(a)
		if len(back) > 0 {
			// token-wise replacement of identifiers
			var b strings.Builder
			i := 0
			for i < len(t) {
				ch := t[i]
				if ch == '_' || ch >= 'a' && ch <= 'z' || ch >= 'A' && ch <= 'Z' {
					j := i
					for j < len(t) && (t[j] == '_' || t[j] >= 'a' && t[j] <= 'z' || t[j] >= 'A' && t[j] <= 'Z' || t[j] >= '0' && t[j] <= '9') {
						j++
					}
					w := t[i:j]
					if i > 0 && t[i-1] == '.' {
						b.WriteString(w) // a field or method name, not a local
					} else if o, ok := back[w]; ok {
						b.WriteString(o)
					} else {
						b.WriteString(w)
					}
					i = j
					continue
				}
				b.WriteByte(ch)
				i++
			}
			t = b.String()
		}
		parts = append(parts, t)
	}
	r := strings.Join(parts, ", ")
	if ce.Ellipsis.IsValid() {
		r += "..."
	}
	return r
}

// atCall runs the "at call K #n" clauses attached to this call site.
func (c *FuncCtx) atCall(st *State, x *ast.CallExpr) {
	if c.contract == nil || c.inSpec(st) || c.inlineDepth > 0 {
		return
	}
	n, ok := c.callOrd[x]
	if !ok {
		return
	}
	key := c.calleeKey(x)
	nth := 0
	for _, cl := range c.contract.Clauses {
		if cl.Kind == "at" && cl.Name == key && ((!cl.HasLit && cl.Loop == n) || (cl.HasLit && c.atLit[cl] == x)) {
			nth++
			c.inAtCall = true
			savedAt := c.atCallExpr
			c.atCallExpr = x
			v := c.evalSpecAt(st, cl.Expr, x.Pos(), c.ghostEnv())
			c.atCallExpr = savedAt
			c.inAtCall = false
			if v.S != tTrue {
				name := fmt.Sprintf("assert@%s#%d", key, n)
				if nth > 1 {
					name += fmt.Sprintf(".%d", nth)
				}
				c.oblige(st, "assert", name, x.Pos(), v.S, cl.Tags, "at call "+key+": "+cl.Text)
				if !cl.CheckOnly {
					st.assume(v.forAssume())
				}
			}
		}
	}
}

func (c *FuncCtx) ghostEnv() map[string]*Val {
	env := map[string]*Val{}
	for _, g := range c.ghostStack {
		for k, v := range g {
			env[k] = v
		}
	}
	if c.contract != nil {
		for _, cl := range c.contract.clauses("let") {
			for _, nm := range splitTop(cl.Name, ',') {
				if v, ok := c.specEnv[nm]; ok {
					env[nm] = v
				}
			}
		}
	}
	return env
}
