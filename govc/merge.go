package main

// State merging at control-flow joins. Two states that forked from a common
// ancestor are combined under a fresh Boolean selector:
//
//   pc      = common prefix  +  (sel => facts only in A)  +  (!sel => facts only in B)
//   x       = ite(sel, A.x, B.x)          for variables and heap arrays that differ
//
// The selector is unconstrained, so every obligation proved from the merged
// state holds on both incoming paths; nothing is assumed beyond what each path
// had. This keeps the number of paths (and of solver queries) linear in the
// number of joins instead of exponential.

import (
	"fmt"
	"go/types"
	"sort"
	"strings"
)

func commonPC(a, b *PC) *PC {
	da, db := 0, 0
	if a != nil {
		da = a.n
	}
	if b != nil {
		db = b.n
	}
	for da > db {
		a = a.parent
		da--
	}
	for db > da {
		b = b.parent
		db--
	}
	for a != b {
		a = a.parent
		b = b.parent
	}
	return a
}

func factsSince(p, anc *PC) []string {
	var out []string
	for q := p; q != anc && q != nil; q = q.parent {
		out = append(out, q.fact)
	}
	for i, j := 0, len(out)-1; i < j; i, j = i+1, j-1 {
		out[i], out[j] = out[j], out[i]
	}
	return out
}

func entryTermFor(key string) string {
	if isTraceKey(key) {
		parts := strings.Split(key, "|")
		if key == "τ|$clock" {
			return "T_clock"
		}
		f := traceIdent(parts[1])
		switch {
		case parts[2] == "n":
			return "T_" + f + "_n"
		case parts[2] == "t":
			return "T_" + f + "_time"
		case parts[2] == "f":
			return "T_" + f + "_fails"
		case strings.HasPrefix(parts[2], "r"):
			return "T_" + f + "_" + parts[2]
		default:
			return "T_" + f + "_a" + parts[2]
		}
	}
	parts := strings.SplitN(key, ".", 2)
	if parts[0] == "ghost" {
		return "G_" + parts[1]
	}
	return fmt.Sprintf("H_%s_%s", parts[0], parts[1])
}

func (c *FuncCtx) merge2(a, b *State) *State {
	anc := commonPC(a.pc, b.pc)
	fa := factsSince(a.pc, anc)
	fb := factsSince(b.pc, anc)
	sel := c.fresh("join", "Bool")
	m := a.clone()
	m.pc = anc
	m.facts = map[string]bool{}
	for f := range a.facts {
		if b.facts[f] {
			m.facts[f] = true
		}
	}
	// facts of each side under the selector
	if ga := mkAnd(fa...); ga != tTrue {
		m.pc = m.pc.push(mkImplies(sel, ga))
	}
	if gb := mkAnd(fb...); gb != tTrue {
		m.pc = m.pc.push(mkImplies(mkNot(sel), gb))
	}
	// variables
	m.vars = map[*types.Var]*Val{}
	avars := make([]*types.Var, 0, len(a.vars))
	for v := range a.vars {
		avars = append(avars, v)
	}
	sort.Slice(avars, func(i, j int) bool {
		if avars[i].Pos() != avars[j].Pos() {
			return avars[i].Pos() < avars[j].Pos()
		}
		return avars[i].Name() < avars[j].Name()
	})
	for _, v := range avars {
		va := a.vars[v]
		vb, ok := b.vars[v]
		if !ok {
			continue
		}
		if va.S == vb.S {
			m.vars[v] = va
			continue
		}
		if va.Sort != vb.Sort {
			continue
		}
		nv := *va
		nv.S = mkIte(sel, va.S, vb.S)
		nv.Closure = nil
		m.vars[v] = c.share(m, &nv, v.Name())
	}
	// heap and traces
	m.heap = map[string]string{}
	keys := map[string]bool{}
	for k := range a.heap {
		keys[k] = true
	}
	for k := range b.heap {
		keys[k] = true
	}
	for _, k := range sortedKeys(keys) {
		ta, oka := a.heap[k]
		tb, okb := b.heap[k]
		if !oka {
			ta = entryTermFor(k)
		}
		if !okb {
			tb = entryTermFor(k)
		}
		if ta == tb {
			m.heap[k] = ta
			continue
		}
		t := mkIte(sel, ta, tb)
		if len(t) >= 160 {
			n := c.fresh("J_"+sanitize(k), c.sortOfKey(k, a, b))
			m.assumeRaw(mkEq(n, t))
			t = n
		}
		m.heap[k] = t
	}
	// allocation bookkeeping: keep what both agree on
	// (where the two paths disagree the joined frontier is some value not below
	// either one)
	fk := map[string]bool{}
	for k := range a.bound {
		if strings.HasPrefix(k, "$alloc_") {
			fk[k] = true
		}
	}
	for k := range b.bound {
		if strings.HasPrefix(k, "$alloc_") {
			fk[k] = true
		}
	}
	for _, k := range sortedKeys(fk) {
		sn := strings.TrimPrefix(k, "$alloc_")
		fa, fb := c.frontier(a, sn), c.frontier(b, sn)
		if fa == fb {
			continue
		}
		f := c.fresh("frontier_"+sn, "Int")
		m.assumeRaw(app(">=", f, fa))
		m.assumeRaw(app(">=", f, fb))
		m.bound[k] = &Val{S: f, Sort: "Int"}
	}
	seen := map[string]bool{}
	m.allocs = nil
	for _, r := range append(append([]string{}, a.allocs...), b.allocs...) {
		if !seen[r] {
			seen[r] = true
			m.allocs = append(m.allocs, r)
		}
	}
	m.guard = nil
	return m
}

func (s *State) assumeRaw(f string) {
	if f == tTrue {
		return
	}
	s.facts[f] = true
	s.pc = s.pc.push(f)
}

// sortOfKey: the SMT sort of a heap/trace entry (needed to name a merged term).
func (c *FuncCtx) sortOfKey(k string, a, b *State) string {
	if s, ok := c.keySorts[k]; ok {
		return s
	}
	limitf("internal: unknown sort of state component %s", k)
	return ""
}

// mergeStates folds any number of states into one.
func (c *FuncCtx) mergeStates(sts []*State) *State {
	var live []*State
	for _, s := range sts {
		if s != nil && !s.dead {
			live = append(live, s)
		}
	}
	if len(live) == 0 {
		return nil
	}
	m := live[0]
	for _, s := range live[1:] {
		m = c.merge2(m, s)
	}
	return m
}

// mergeNext merges the fall-through outcomes of a statement and leaves the
// others (break, continue, return) as they are.
func (c *FuncCtx) mergeNext(outs []outcome) []outcome {
	if c.noMerge {
		return outs
	}
	var next []*State
	var rest []outcome
	for _, o := range outs {
		if o.st.dead {
			continue
		}
		if o.kind == oNext {
			next = append(next, o.st)
		} else {
			rest = append(rest, o)
		}
	}
	if len(next) <= 1 {
		return outs
	}
	m := c.mergeStates(next)
	return append([]outcome{{oNext, m}}, rest...)
}
