package main

// SMT-LIB term construction helpers. Terms are plain strings; a little
// syntactic simplification keeps the generated VCs small and readable.

import (
	"fmt"
	"math/big"
	"sort"
	"strings"
)

const (
	tTrue  = "true"
	tFalse = "false"
)

func app(f string, args ...string) string {
	if len(args) == 0 {
		return f
	}
	return "(" + f + " " + strings.Join(args, " ") + ")"
}

func mkAnd(xs ...string) string {
	var ys []string
	for _, x := range xs {
		if x == tTrue || x == "" {
			continue
		}
		if x == tFalse {
			return tFalse
		}
		ys = append(ys, x)
	}
	switch len(ys) {
	case 0:
		return tTrue
	case 1:
		return ys[0]
	}
	return app("and", ys...)
}

func mkOr(xs ...string) string {
	var ys []string
	for _, x := range xs {
		if x == tFalse || x == "" {
			continue
		}
		if x == tTrue {
			return tTrue
		}
		ys = append(ys, x)
	}
	switch len(ys) {
	case 0:
		return tFalse
	case 1:
		return ys[0]
	}
	return app("or", ys...)
}

func mkNot(x string) string {
	switch x {
	case tTrue:
		return tFalse
	case tFalse:
		return tTrue
	}
	if strings.HasPrefix(x, "(not ") && balancedTail(x[5:len(x)-1]) {
		return x[5 : len(x)-1]
	}
	return app("not", x)
}

// balancedTail reports whether s is one complete term (so that "(not s)" can
// be stripped safely).
func balancedTail(s string) bool {
	depth := 0
	inStr := false
	for i := 0; i < len(s); i++ {
		c := s[i]
		if inStr {
			if c == '"' {
				inStr = false
			}
			continue
		}
		switch c {
		case '"':
			inStr = true
		case '(':
			depth++
		case ')':
			depth--
			if depth < 0 {
				return false
			}
			if depth == 0 && i != len(s)-1 {
				return false
			}
		case ' ':
			if depth == 0 {
				return false
			}
		}
	}
	return depth == 0
}

func mkImplies(a, b string) string {
	if a == tTrue {
		return b
	}
	if a == tFalse || b == tTrue {
		return tTrue
	}
	if b == tFalse {
		return mkNot(a)
	}
	return app("=>", a, b)
}

func mkIte(c, a, b string) string {
	if c == tTrue {
		return a
	}
	if c == tFalse {
		return b
	}
	if a == b {
		return a
	}
	return app("ite", c, a, b)
}

func mkEq(a, b string) string {
	if a == b {
		return tTrue
	}
	return app("=", a, b)
}

func mkInt(n int64) string {
	if n < 0 {
		return fmt.Sprintf("(- %d)", -n)
	}
	return fmt.Sprintf("%d", n)
}

func mkBig(n *big.Int) string {
	if n.Sign() < 0 {
		return "(- " + new(big.Int).Neg(n).String() + ")"
	}
	return n.String()
}

func isIntLit(s string) (int64, bool) {
	if s == "" {
		return 0, false
	}
	neg := false
	t := s
	if strings.HasPrefix(s, "(- ") && strings.HasSuffix(s, ")") {
		neg = true
		t = s[3 : len(s)-1]
	}
	var n int64
	if len(t) > 18 {
		return 0, false
	}
	for _, c := range t {
		if c < '0' || c > '9' {
			return 0, false
		}
		n = n*10 + int64(c-'0')
	}
	if t == "" {
		return 0, false
	}
	if neg {
		n = -n
	}
	return n, true
}

func mkAdd(a, b string) string {
	x, okx := isIntLit(a)
	y, oky := isIntLit(b)
	if okx && oky {
		return mkInt(x + y)
	}
	if okx && x == 0 {
		return b
	}
	if oky && y == 0 {
		return a
	}
	// (+ X c1) + c2  ->  (+ X c1+c2)
	if oky {
		if x0, c1, ok := splitPlusConst(a); ok {
			return mkAdd(x0, mkInt(c1+y))
		}
	}
	if okx {
		if y0, c1, ok := splitPlusConst(b); ok {
			return mkAdd(y0, mkInt(c1+x))
		}
	}
	if oky && y < 0 {
		return app("-", a, mkInt(-y))
	}
	return app("+", a, b)
}

// splitPlusConst recognises "(+ X c)" and "(- X c)" with an integer literal c.
func splitPlusConst(t string) (string, int64, bool) {
	if !(strings.HasPrefix(t, "(+ ") || strings.HasPrefix(t, "(- ")) || !strings.HasSuffix(t, ")") {
		return "", 0, false
	}
	args := splitArgs(t[3 : len(t)-1])
	if len(args) != 2 {
		return "", 0, false
	}
	c, ok := isIntLit(args[1])
	if !ok {
		return "", 0, false
	}
	if t[1] == '-' {
		c = -c
	}
	return args[0], c, true
}

func mkSub(a, b string) string {
	x, okx := isIntLit(a)
	y, oky := isIntLit(b)
	if okx && oky {
		return mkInt(x - y)
	}
	if oky && y == 0 {
		return a
	}
	if oky {
		return mkAdd(a, mkInt(-y))
	}
	return app("-", a, b)
}

// mkSel: select, with read-over-write at a syntactically equal index resolved.
func mkSel(arr, i string) string {
	for strings.HasPrefix(arr, "(store ") {
		args := splitArgs(arr[len("(store ") : len(arr)-1])
		if len(args) != 3 {
			break
		}
		if args[1] == i {
			return args[2]
		}
		// distinct integer literals: look through the store
		if a, ok1 := isIntLit(args[1]); ok1 {
			if b, ok2 := isIntLit(i); ok2 && a != b {
				arr = args[0]
				continue
			}
		}
		break
	}
	return app("select", arr, i)
}
func mkStore(arr, i, v string) string { return app("store", arr, i, v) }

// smtString renders a Go string (a byte sequence) as an SMT-LIB string
// literal in which every SMT character stands for one byte.
func smtString(s string) string {
	var b strings.Builder
	b.WriteByte('"')
	for i := 0; i < len(s); i++ {
		c := s[i]
		switch {
		case c == '"':
			b.WriteString(`""`)
		case c == '\\':
			b.WriteString(`\u{5c}`)
		case c >= 0x20 && c < 0x7f:
			b.WriteByte(c)
		default:
			fmt.Fprintf(&b, `\u{%x}`, c)
		}
	}
	b.WriteByte('"')
	return b.String()
}

// PC is a persistent list of path facts.
type PC struct {
	parent *PC
	fact   string
	n      int
}

func (p *PC) push(f string) *PC {
	if f == tTrue || f == "" {
		return p
	}
	n := 1
	if p != nil {
		n = p.n + 1
	}
	return &PC{parent: p, fact: f, n: n}
}

func (p *PC) list() []string {
	var out []string
	for q := p; q != nil; q = q.parent {
		out = append(out, q.fact)
	}
	for i, j := 0, len(out)-1; i < j; i, j = i+1, j-1 {
		out[i], out[j] = out[j], out[i]
	}
	return out
}

// Sorts registry: Go type -> SMT sort, with datatype declarations emitted in
// dependency order.
type Sorts struct {
	decls []string
	seen  map[string]bool
}

func newSorts() *Sorts {
	s := &Sorts{seen: map[string]bool{}}
	// interface values: dynamic type tag + payload reference
	s.decls = append(s.decls, "(declare-datatypes ((Iface 0)) (((mk_Iface (tag_Iface Int) (ref_Iface Int)))))")
	s.seen["Iface"] = true
	return s
}

func sortIdent(s string) string {
	r := strings.NewReplacer("(", "", ")", "", " ", "_")
	return r.Replace(s)
}

func (s *Sorts) slice(elem string) string {
	n := "Sl_" + sortIdent(elem)
	if !s.seen[n] {
		s.seen[n] = true
		s.decls = append(s.decls, fmt.Sprintf("(declare-datatypes ((%s 0)) (((mk_%s (base_%s (Array Int %s)) (off_%s Int) (len_%s Int) (nil_%s Bool)))))", n, n, n, elem, n, n, n))
	}
	return n
}

func (s *Sorts) mapOf(k, v string) string {
	n := "Mp_" + sortIdent(k) + "_" + sortIdent(v)
	if !s.seen[n] {
		s.seen[n] = true
		s.decls = append(s.decls, fmt.Sprintf("(declare-datatypes ((%s 0)) (((mk_%s (dom_%s (Array %s Bool)) (val_%s (Array %s %s)) (nil_%s Bool)))))", n, n, n, k, n, k, v, n))
	}
	return n
}

func (s *Sorts) opt(elem string) string {
	n := "Opt_" + sortIdent(elem)
	if !s.seen[n] {
		s.seen[n] = true
		s.decls = append(s.decls, fmt.Sprintf("(declare-datatypes ((%s 0)) (((none_%s) (some_%s (val_%s %s)))))", n, n, n, n, elem))
	}
	return n
}

func (s *Sorts) structOf(name string, fields []string, fsorts []string) string {
	n := "St_" + sortIdent(name)
	if !s.seen[n] {
		s.seen[n] = true
		var fs []string
		for i, f := range fields {
			fs = append(fs, fmt.Sprintf("(%s_%s %s)", n, f, fsorts[i]))
		}
		if len(fs) == 0 {
			fs = append(fs, fmt.Sprintf("(%s__dummy Int)", n))
		}
		s.decls = append(s.decls, fmt.Sprintf("(declare-datatypes ((%s 0)) (((mk_%s %s))))", n, n, strings.Join(fs, " ")))
	}
	return n
}

func sortedKeys[M ~map[string]V, V any](m M) []string {
	ks := make([]string, 0, len(m))
	for k := range m {
		ks = append(ks, k)
	}
	sort.Strings(ks)
	return ks
}

// acc applies a datatype accessor, simplifying accessor-of-constructor.
func acc(name, term string) string {
	// name = "<field>_<Sort>" ; constructor = "mk_<Sort>"
	i := strings.IndexByte(name, '_')
	if i > 0 && strings.HasPrefix(term, "(mk_") {
		sort := name[i+1:]
		field := name[:i]
		if strings.HasPrefix(term, "(mk_"+sort+" ") {
			args := splitArgs(term[len("(mk_"+sort+" ") : len(term)-1])
			var idx int = -1
			switch {
			case strings.HasPrefix(sort, "Sl_"):
				idx = map[string]int{"base": 0, "off": 1, "len": 2, "nil": 3}[field]
			case strings.HasPrefix(sort, "Mp_"):
				idx = map[string]int{"dom": 0, "val": 1, "nil": 2}[field]
			}
			if idx >= 0 && idx < len(args) {
				return args[idx]
			}
		}
	}
	return app(name, term)
}

// splitArgs splits a space-separated list of SMT terms at top level.
func splitArgs(s string) []string {
	var out []string
	depth := 0
	start := -1
	inStr := false
	for i := 0; i < len(s); i++ {
		ch := s[i]
		if inStr {
			if ch == '"' {
				inStr = false
			}
			continue
		}
		switch ch {
		case '"':
			inStr = true
			if start < 0 {
				start = i
			}
		case '(':
			if start < 0 {
				start = i
			}
			depth++
		case ')':
			depth--
		case ' ':
			if depth == 0 && start >= 0 {
				out = append(out, s[start:i])
				start = -1
			}
		default:
			if start < 0 {
				start = i
			}
		}
	}
	if start >= 0 {
		out = append(out, s[start:])
	}
	return out
}

// skolemize replaces existential quantifiers in positive position of an
// assumed fact by fresh constants (sound for assumptions, and it spares the
// solvers a quantifier instantiation).  Only and / => / ite / or spines are
// descended; anything else is left as it is.
func (c *FuncCtx) skolemize(f string) string {
	if !strings.Contains(f, "(exists ") {
		return f
	}
	if !strings.HasPrefix(f, "(") || !strings.HasSuffix(f, ")") {
		return f
	}
	parts := splitArgs(f[1 : len(f)-1])
	if len(parts) == 0 {
		return f
	}
	switch parts[0] {
	case "and", "or":
		for i := 1; i < len(parts); i++ {
			parts[i] = c.skolemize(parts[i])
		}
		return "(" + strings.Join(parts, " ") + ")"
	case "=>":
		parts[len(parts)-1] = c.skolemize(parts[len(parts)-1])
		return "(" + strings.Join(parts, " ") + ")"
	case "ite":
		if len(parts) == 4 {
			parts[2] = c.skolemize(parts[2])
			parts[3] = c.skolemize(parts[3])
			return "(" + strings.Join(parts, " ") + ")"
		}
	case "exists":
		if len(parts) != 3 {
			return f
		}
		bs := parts[1]
		body := parts[2]
		for _, b := range splitArgs(bs[1 : len(bs)-1]) {
			nv := splitArgs(b[1 : len(b)-1])
			if len(nv) != 2 {
				return f
			}
			base := strings.TrimRight(nv[0], "0123456789")
			base = strings.TrimSuffix(base, "?")
			k := c.fresh("sk_"+base, nv[1])
			body = replaceSymbol(body, nv[0], k)
		}
		return c.skolemize(body)
	}
	return f
}

// replaceSymbol substitutes whole-symbol occurrences outside string literals.
func replaceSymbol(s, from, to string) string {
	var b strings.Builder
	inStr := false
	isSym := func(ch byte) bool {
		return ch != ' ' && ch != '(' && ch != ')' && ch != '"'
	}
	for i := 0; i < len(s); {
		ch := s[i]
		if inStr {
			b.WriteByte(ch)
			if ch == '"' {
				inStr = false
			}
			i++
			continue
		}
		if ch == '"' {
			inStr = true
			b.WriteByte(ch)
			i++
			continue
		}
		if isSym(ch) {
			j := i
			for j < len(s) && isSym(s[j]) {
				j++
			}
			if s[i:j] == from {
				b.WriteString(to)
			} else {
				b.WriteString(s[i:j])
			}
			i = j
			continue
		}
		b.WriteByte(ch)
		i++
	}
	return b.String()
}
