#!/bin/sh
# usage: tools/seeded_own.sh [id...]
# For every seeded change: apply it in a scratch worktree (never in /repo), run the
# quick check of the property it was written against plus C04 (the broad safety
# check) with a scratch VERIF_DIR, and write seeded/<id>/meta.json.
export GOFLAGS=-mod=mod GOPROXY=off GOSUMDB=off GOTOOLCHAIN=local
GOVC=${GOVC:-/verif/bin/govc}
IDS="$@"
[ -z "$IDS" ] && IDS=$(ls -d /verif/seeded/C* | xargs -n1 basename)
for ID in $IDS; do
  D=/verif/seeded/$ID
  [ -f $D/patch.diff ] || continue
  PROP=$(echo $ID | cut -c1-3)
  W=$(mktemp -d /tmp/seedown.XXXXXX)
  git -C /repo worktree add -q --detach $W/wt HEAD || continue
  if ! (cd $W/wt && git apply $D/patch.diff); then echo "$ID: patch does not apply"; git -C /repo worktree remove --force $W/wt; rm -rf $W; continue; fi
  mkdir -p $W/v && cp /verif/known_findings.json /verif/expected_obligations.json /verif/MANIFEST.json $W/v/
  CAUGHT=""; OBL=""
  for P in $PROP $EXTRA; do
    VERIF_DIR=$W/v $GOVC check -repo $W/wt $P > $W/out.$P 2>&1; RC=$?
    if [ $RC -ne 0 ] && grep -q "^VIOLATION property=$P" $W/out.$P; then
      CAUGHT="$CAUGHT $P"
      OBL="$OBL $(grep '^FAILED ' $W/out.$P | awk '{print $2}' | sort -u | head -6 | tr '\n' ' ')"
    fi
  done
  python3 - "$ID" "$PROP" "$CAUGHT" "$OBL" <<'PY'
import json,sys,os,re
id,prop,caught,obl=sys.argv[1:5]
d='/verif/seeded/'+id
needs=''
p=os.path.join(d,'MUTATION.md')
if os.path.exists(p):
    t=open(p).read()
    m=re.search(r'(?is)(trigger|what (?:specific )?(?:input|is needed)|needs?|manifest)[^\n]*\n+(.{40,900}?)(\n#|\n\n\n|\Z)',t)
    needs=(m.group(2).strip() if m else t.strip()[:600])
meta={"id":id,"property":prop,"source":"written by a fresh sub-agent that saw only the property text and a scratch worktree",
 "needs_to_manifest":needs,
 "confirmed_by":"tools/confirm_seeded.sh (scratch worktree: builds, the 142 existing tests pass, mutdemo_test.go fails with the change and passes without)",
 "checks_run":[prop+" quick"],
 "caught_by":caught.split(),
 "failed_obligations":sorted(set(obl.split()))}
json.dump(meta,open(os.path.join(d,'meta.json'),'w'),indent=1)
print(id,'caught_by:',caught)
PY
  git -C /repo worktree remove --force $W/wt; rm -rf $W
done
