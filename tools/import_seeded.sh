#!/bin/sh
# usage: tools/import_seeded.sh <seeded-id> <worktree>
# Copies a sub-agent's change (diff of the worktree without the contract file),
# demonstration and notes into seeded/<id>/ and confirms it in a scratch worktree.
id=$1; src=$2
mkdir -p /verif/seeded/$id
(cd $src && git diff -- . ':!contracts_verif.go' > /verif/seeded/$id/patch.diff && cp mutdemo_test.go /verif/seeded/$id/ && cp MUTATION.md /verif/seeded/$id/) || exit 1
/verif/tools/confirm_seeded.sh $id
