#!/usr/bin/env python3
"""Re-derives needs_to_manifest in seeded/*/meta.json from MUTATION.md and rewrites the
table between the SEEDED-TABLE markers of DESIGN.md (from tools/seeded_table.py)."""
import json,glob,os,re,subprocess
def needs(t):
    secs=re.split(r'\n(?=#{1,4} )',t)
    best=None
    for s in secs:
        head=s.split('\n',1)[0].lower()
        if re.search(r'trigger|manifest|needed|needs|specific|how to (hit|reach)|when it shows|input',head):
            body=s.split('\n',1)[1].strip() if '\n' in s else ''
            if len(body)>40:
                best=body; break
    if not best:
        m=re.search(r'(?is)\*\*(trigger|what[^*]{0,40}(needs|needed|manifest)[^*]*)\*\*[:\s]*(.{40,900}?)(\n\n|\Z)',t)
        if m: best=m.group(3).strip()
    if not best:
        m=re.search(r'(?im)^(?:[-*\d.]+\s*)?(trigger|needs?)[^\n]*:\s*(.{40,900}?)(\n\n|\Z)',t,re.S)
        if m: best=m.group(2).strip()
    if not best: best=t.strip()[:700]
    return re.sub(r'\s+',' ',best)[:900]
for f in glob.glob('/verif/seeded/*/meta.json'):
    d=os.path.dirname(f); p=os.path.join(d,'MUTATION.md'); m=json.load(open(f))
    if os.path.exists(p): m['needs_to_manifest']=needs(open(p).read())
    json.dump(m,open(f,'w'),indent=1)
t=subprocess.run(['python3','/verif/tools/seeded_table.py'],capture_output=True,text=True).stdout
s=open('/verif/DESIGN.md').read()
i=s.index('<!-- SEEDED-TABLE-BEGIN -->'); j=s.index('<!-- SEEDED-TABLE-END -->')
open('/verif/DESIGN.md','w').write(s[:i]+'<!-- SEEDED-TABLE-BEGIN -->\n'+t+s[j:])
print(t.count('\n')-2,'rows')
