#!/usr/bin/env python3
"""Regenerates /verif/MANIFEST.json from the table below (claims) and properties.jsonl."""
import json, subprocess

CLAIMS = {
 "C01": ("per-occurrence contracts of parseOption/parseLong/parseShort/splitShortConcatArg over the ghost trace of Option.Set (which option, which textual value, how many calls, what is popped), name resolution through lookup tables proved exact (makeLookup/fillLookup/LongNameWithNamespace)",
         "Option.Set, convert and the reflection layer below them are assumed contracts (trusted): that a Set call stores the converted value in the bound field is not proved"),
 "C02": ("tokeniser contracts (argumentIsOption, stripOptionPrefix, splitOption, splitShortConcatArg) and the four-case contract of parseOption shared by every spelling through 'like' clauses; cluster clause of parseShort over the rune sequence",
         "isValidValue/isSignedNumber (reflection) and strconv.Unquote are assumed; the pairwise interchangeability of spellings is read off the shared parseOption contract, not proved as a relational lemma"),
 "C03": ("pop/addArgs functional contracts (exact conservation of the tokens handed over, pointwise), suffix facts of parseOption/parseShort/parseLong, fillParseState, ParseArgs returns the retargs it also hands to the command",
         "whole-argv conservation across the argument loop is composed by hand from the per-call contracts (not a single mechanised invariant)"),
 "C04": ("annotation-free safety obligations (index, slice, nil, type assertion, division, nil map/func) in every function under contract, typed-error postconditions, printError called exactly once iff an error is returned, stdout only for ErrHelp",
         "a few functions (Option.call, help text generation called from showBuiltinHelp) enter as assumed contracts; termination of the argument loop assumes the unknown-option handler does not grow the list"),
 "C07": ("parseLong/parseShort unknown-name posts (ErrUnknownFlag, no Set, nothing popped), lookup tables proved exact (an entry is filed under exactly the name it answers to and belongs to the command chain), ParseArgs: a non-ignorable option error is the returned error and blocks execution",
         "message text (fmt.Sprintf) is uninterpreted; the single handler call with the unconsumed arguments is not yet a postcondition"),
 "C08": ("fillLookup/makeLookup (options filed under exact namespaced names, commands only subcommands of the current command answering to the word), parseNonOption (selection, Active, refill of positionals), visible/sorted commands",
         "completeness of the command table (every name and alias present) is not proved; group-tree well-formedness (parents, depth) is a trusted axiom"),
 "C09": ("trace postconditions of ParseArgs: at most one Execute/CommandHandler call, none in completion mode or with an internal error, only after checkRequired returned nil (ghost clock), with the returned remaining arguments, error returned unchanged; failed conversions and non-ignorable option errors block it",
         "Execute/CommandHandler/UnknownOptionHandler are user callbacks (assumed not to touch parser state); checkRequired/clearDefault/estimateCommand are assumed contracts"),
 "C10": ("addArgs head-of-queue binding (k-th token converted into the k-th pending positional, a slice-typed head absorbs the rest) over the ghost trace of convert, fillParseState copies c.args in order, parseNonOption prefers pending positionals",
         "convert itself and the construction of c.args by scanSubcommandHandler are assumed"),
 "C05": ("the four-flag state machine: Set, setDefault, clearDefault (environment over default tags, split on the delimiter, emptied first) and EnvKeyWithNamespace against the recursive env-namespace spec; IniParser.parse raises clearReferenceBeforeSet on every option before applying entries",
         "the position of the two eachOption passes in ParseArgs relative to the argument loop is only partly a postcondition; os.LookupEnv/strings.Split are assumed; the store itself (convert/empty/call) is represented by ghost traces"),
 "C06": ("checkRequired: a nil result implies that no option of the active chain is required-and-unset and no pending positional is unmet by the documented rules; an error is ErrRequired and recorded; ParseArgs dispatches only after checkRequired returned nil",
         "the converse (an error implies something is really missing, i.e. unselected commands are never demanded) and the content of the message are not mechanised; the active chain is a ghost sequence with trusted finiteness"),
 "C11": ("convert per kind: the strconv parser is called with the width of the field's type and the base of the tag, the parsed value is what is stored (ghost trace of reflect Set*), nothing is stored on error; getBase; choice rejection in Set",
         "strconv/time parsers, reflect and custom Unmarshalers are assumed; slices, maps and pointers only get error propagation and safety (recursion through the contract), termination of the recursion is not proved"),
 "C12": ("value-level round trip of the INI writer/reader pair: whatever writeOption writes for a string value (or for an option whose values were quoted when read) decodes - by the reader's own rule: trim, then strconv.Unquote iff the text starts with a double quote - to exactly the value passed in, for scalar and for map entries (assertions at the three output points, using the library facts Unquote(Quote(s)) == s and the shape of Quote's result); readIni stores exactly that decoding of the text after '=' and the trimmed key; IniParser.parse hands a map entry on as key:decoded-value; convertToString renders each kind with the strconv formatter that convert's parser for that kind inverts, with the base read from the same tag; writeGroupIni never writes hidden / func / no-ini options and passes the element kind on so that strings get quoted",
         "line level (section headers, '=' inside names, comment marks, the 'omitted because default' rule, _read-ini-name) and the composition into a whole-file round trip are not mechanised; Parse(Format(x)) == x for the strconv pairs, Quote/Unquote and TrimSpace facts are trusted library axioms; Marshaler/Unmarshaler implementations are outside"),
 "C13": ("optionByName returns an option of maximal rank (ini-name > field name > namespaced long name > short name) among all groups below the section's group; matchingGroups; Command.groupByName resolves a section name through own groups first and then, recursively, the first subcommand that answers for it; the value handed to Set/setDefault by IniParser.parse; as-defaults mode: every option this file has already defaulted is recorded (so later entries for it accumulate)",
         "first-of-equal-rank, Group.Find (group lookup by description) and the relational lemma ini-entry == flag are not mechanised"),
 "C14": ("readFullLine/readIni/IniParser.parse: no index or nil panic for any byte sequence, termination for finite input, every *IniError carries the number of lines read so far and the file name, sections are registered in file order, ErrUnknownGroup only without IgnoreUnknown",
         "bufio.Reader.ReadLine is assumed (finite input); that noise lines do not change other entries is read off the loop structure, not a separate lemma"),
 "C15": ("every place where the library ranges over a Go map or over reflect's MapKeys is executed for an arbitrary ghost iteration order, and what leaves the function is shown order-free: convertToString and writeGroupIni render map entries by ascending rendered key (sortedness is a loop invariant of the rendering loop), completion candidates leave complete() sorted, visible commands are sorted, the required-flag list is sorted before it is joined into the message, IniParser.parse walks the sections in file order (ini.order), never the Sections map",
         "determinism is argued per function from 'canonical order' obligations (a sorted sequence of a set is unique); it is not a relational (two-run) proof; the Go scheduler and map hashing are otherwise outside the model; help/man text is order-free because it only ranges over slices"),
 "C16": ("help and man page rows: writeManPageOptions and WriteHelp write exactly one row per option that can be shown (non-hidden, with a name) of every group that is not hidden (and, below the top level, not the built-in help group) along the iterated groups / active chain - counted with ghost counters against a recursive specification - and no row for anything else; hidden options write nothing (writeHelpOption); a masked default is rendered as its mask or not at all, never as its value (help row text and man row); man sections and the help command list only come from the sorted visible (non-hidden) subcommands",
         "the byte-level layout of a row (names, value name, choices) is not specified beyond the description/default/env text; fmt and bufio are assumed; termination of the mutual recursion of the man-page walk is not proved; ordinals of 'at call' assertions are tied to the current source"),
 "C17": ("wrapText: safety of every slice expression, termination, break positions 1 <= pos < width, and content preservation (the text without white space and hyphens is unchanged); alignment: getAlignmentInfo sizes the option column for every option the help shows and for every positional argument of the active chain (counted in characters), and with that every strings.Repeat count in writeHelpOption and WriteHelp (padding before descriptions, argument rows, command list) is proved non-negative - help generation cannot panic on a negative count whatever the names",
         "'no description line extends past the terminal width' and 'continuation lines are indented to the description column' are not mechanised; three facts about UTF-8 character counts under concatenation (sub-additive, at most 3 less than the sum, exact before an ASCII byte), the ghost character count of bytes.Buffer and the description of what eachActiveGroup visits are trusted axioms; nwd is a trusted ghost function"),
 "C18": ("completion: completeCommands returns exactly the non-hidden subcommands of the current command with the typed prefix; completeOptionNames offers only non-hidden long names of the table with that prefix, one item per such name (counting invariant over every order the runtime may range over the table), a non-empty short prefix is returned as it is; completeValue asks the value's own Completer (or, failing that, the Completer of its address) exactly once and re-attaches the spelling typed so far to each answer; complete: the word walk decides 'value attached to the first short option' exactly as the parser's splitShortConcatArg does (width of the first character as decoded), one source of candidates per call, the result is the sorted rearrangement of that source",
         "the relational claim 'the parser reaches the same command context on the same prefix' is covered only for the attached-value rule of clusters, not for the whole walk (positionals, terminator, command switch are safety-checked only); short-name offers (second table) and the Completer implementations are not specified; table entries are trusted to be non-nil"),
 "C19": ("multiTag.scan against a recursive grammar of the tag text (keys, escapes inside quoted values, repeated keys in order, strconv.Unquote of each literal), safety for every string, ErrTag on every error exit; checkForDuplicateFlags: a nil result implies that no two options of the declaration share a short name or a namespaced long name (the two tables are proved to be witnesses), a non-nil result is ErrDuplicatedFlag; scanStruct: every option it creates carries exactly the tag's attributes - long and short name, description, defaults / choices / optional values in order, value name, mask, env key and delimiter, the optional / required / hidden marks - and is bound to its group and field; a short name longer than one character or a default on a boolean flag never yields an option",
         "multiTag.Get/GetMany (the cache over scan's result), the sub-group / sub-command / positional-args handlers and the error types of the two refusals are not under contract; reflect is assumed"),
 "C20": ("levenshtein proved equal to the Wagner-Fischer recurrence over rune sequences (table invariants), closestChoice returns the first minimum, visible/sorted command lists, estimateCommand: candidates are exactly the sorted visible subcommands, suggestion iff 2*distance < length of the suggested name, otherwise the enumeration of all of them (message text proved)",
         "the float32 threshold in estimateCommand is modelled over the reals; symmetry and d=0 iff equal are properties of the recurrence not proved as lemmas"),
}

props=[json.loads(l) for l in open('/verif/properties.jsonl')]
hooks=subprocess.run("git -C /repo log --format=%H --grep='^verif:' ",shell=True,capture_output=True,text=True).stdout.split()
m={
 "version":1,
 "setup_cmd":"make -C /verif setup",
 "hooks":{"guard":"verif","enable":"-tags verif (the only hook is /repo/contracts_verif.go: comments only, no code)","baseline_off_cmd":"cd /repo && go test -vet=off -count=1 -timeout 25m ./...","source_commits":hooks,"add_only":True},
 "engines":[{"name":"govc","path":"/verif/govc","serves_properties":sorted(CLAIMS),"kind_free_text":"home-built deductive verifier for a Go subset: contracts in /repo/contracts_verif.go, symbolic execution of the typed AST into verification conditions, discharged by z3 5.1.0 / cvc5 1.0 / z3 4.8.12"}],
 "checks":[],
 "not_applicable":[],
 "notes":"see DESIGN.md; known_findings.json lists repaired defects (fixed:) and recorded ones"
}
for p in props:
    if p['id'] in CLAIMS:
        what,trust=CLAIMS[p['id']]
        m['checks'].append({
          "property_id":p['id'],
          "quick_cmd":"./check %s quick"%p['id'],
          "thorough_cmd":"./check %s thorough"%p['id'],
          "evidence_file":"/verif/evidence/%s.json"%p['id'],
          "replay_cmd_template":"./check --replay {path}",
          "engine":"govc",
          "level_claimed":{"category":"proof","text":"contracts on the real functions; every generated obligation discharged by an SMT solver for all inputs and all loop iterations. Covered: "+what,"design_ref":"DESIGN.md §4 "+p['id']+" and §8"},
          "level_note":"not proved / trusted: "+trust+"; plus govc's Go-subset semantics, the SMT solvers and the assumed library contracts listed in the evidence (trusted_base)",
          "technique":"contract-based deductive verification: VC generation over the typed AST (go/types) + SMT (z3, cvc5)"
        })
    else:
        m['not_applicable'].append({"property_id":p['id'],"reason":"contracts designed (DESIGN.md §4) but not yet mechanised; not claimed at a weaker level by another technique"})
json.dump(m,open('/verif/MANIFEST.json','w'),indent=1)
print("claimed",sorted(CLAIMS))
