#!/bin/sh
# usage: tools/seeded_matrix.sh [id...]   - which registered checks catch which seeded change.
# Works on scratch worktrees and a scratch VERIF_DIR, never on /repo or /verif/evidence.
export GOFLAGS=-mod=mod GOPROXY=off GOSUMDB=off GOTOOLCHAIN=local
PROPS=$(python3 -c "import json;print(' '.join(c['property_id'] for c in json.load(open('/verif/MANIFEST.json'))['checks']))")
IDS="$@"
[ -z "$IDS" ] && IDS=$(ls /verif/seeded)
for ID in $IDS; do
  W=$(mktemp -d /tmp/seedmx.XXXXXX)
  git -C /repo worktree add -q --detach $W/wt HEAD || continue
  (cd $W/wt && git apply /verif/seeded/$ID/patch.diff) || { echo "$ID: patch does not apply"; git -C /repo worktree remove --force $W/wt; rm -rf $W; continue; }
  mkdir -p $W/v && cp /verif/known_findings.json /verif/expected_obligations.json /verif/MANIFEST.json $W/v/
  CAUGHT=""
  for P in $PROPS; do
    if VERIF_DIR=$W/v /verif/bin/govc check -repo $W/wt $P > $W/out.$P 2>&1; then :; else
      if grep -q "^VIOLATION property=$P" $W/out.$P; then CAUGHT="$CAUGHT $P"; fi
    fi
  done
  echo "$ID caught_by:$CAUGHT"
  git -C /repo worktree remove --force $W/wt; rm -rf $W
done
