#!/bin/sh
# usage: tools/commit_contracts.sh "<message>"
# Commits /repo/contracts_verif.go only if every obligation of every function
# under contract discharges on the current tree.
export GOFLAGS=-mod=mod GOPROXY=off GOSUMDB=off GOTOOLCHAIN=local
OUT=$(/verif/bin/govc verify -all 2>&1)
LAST=$(echo "$OUT" | grep "^obligations:")
echo "$LAST"
N=$(echo "$LAST" | sed 's/obligations: \([0-9]*\) named.*/\1/')
P=$(echo "$LAST" | sed 's/.*proved \([0-9]*\);.*/\1/')
if [ -z "$N" ] || [ "$N" != "$P" ] || echo "$OUT" | grep -q "^ENGINE-LIMIT"; then
  echo "$OUT" | grep -E "^(FAILED|UNKNOWN|TIMEOUT|ENGINE-LIMIT)" | cut -c1-200
  echo "NOT COMMITTED"; exit 1
fi
git -C /repo add contracts_verif.go && git -C /repo commit -qm "verif: $1" && echo committed
