#!/usr/bin/env python3
"""Prints the markdown table of seeded changes from seeded/*/meta.json (for DESIGN.md §8.6)."""
import json,glob,os
rows=[]
for f in sorted(glob.glob('/verif/seeded/*/meta.json')):
    m=json.load(open(f))
    obl=', '.join('`%s`'%o for o in m.get('failed_obligations',[])[:3])
    rows.append('| %s | %s | %s | %s |'%(m['id'],m['property'],' '.join(m.get('caught_by',[])) or '**not caught**',obl))
print('| seeded change | written against | caught by (quick check) | failing obligations (first three) |')
print('|---|---|---|---|')
print('\n'.join(rows))
