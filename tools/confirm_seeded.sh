#!/bin/sh
# usage: tools/confirm_seeded.sh <seeded-id>
# Confirms in a scratch worktree (outside /repo and /verif) that the seeded change
# compiles, passes the existing suite, and that its demonstration fails with the
# change and passes without it. Prints a JSON fragment.
ID=$1
D=/verif/seeded/$ID
W=$(mktemp -d /tmp/seedconf.XXXXXX)
export GOFLAGS=-mod=mod GOPROXY=off GOSUMDB=off GOTOOLCHAIN=local
git -C /repo worktree add -q --detach $W/wt HEAD || exit 2
cd $W/wt
cp $D/mutdemo_test.go .
go test -vet=off -count=1 -run 'TestMutDemo' . >$W/demo_clean.log 2>&1; DEMO_CLEAN=$?
git apply $D/patch.diff || { echo "patch does not apply"; DEMO_CLEAN=99; }
go build ./... >$W/build.log 2>&1; BUILD=$?
go test -vet=off -count=1 -skip 'TestMutDemo' ./... >$W/suite.log 2>&1; SUITE=$?
go test -vet=off -count=1 -run 'TestMutDemo' . >$W/demo_mut.log 2>&1; DEMO_MUT=$?
echo "{\"id\":\"$ID\",\"build_with_change\":$BUILD,\"suite_with_change\":$SUITE,\"demo_without_change\":$DEMO_CLEAN,\"demo_with_change\":$DEMO_MUT}"
cd /; git -C /repo worktree remove --force $W/wt; rm -rf $W
