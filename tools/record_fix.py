#!/usr/bin/env python3
"""usage: record_fix.py <property> <commit> <obligation> <what failed>  - appends a fixed: entry to known_findings.json"""
import json,sys
prop,commit,obl,what=sys.argv[1:5]
d=json.load(open('/verif/known_findings.json'))
d['fixed'].append({"property":prop,"commit":commit,"obligation":obl,"what":"fixed: property=%s %s %s"%(prop,commit,what)})
json.dump(d,open('/verif/known_findings.json','w'),indent=1)
