#!/bin/sh
# usage: tools/try_benign.sh <benign-id>
# Applies /verif/benign/<id>/patch.diff (a behaviour-preserving change) to /repo,
# runs every registered quick check (scratch VERIF_DIR), reverts, and lists the
# checks that raised an alarm (each one is a false alarm).
set -u
ID=$1
P=/verif/benign/$ID/patch.diff
cd /repo || exit 2
if ! git diff --quiet; then echo "repo has uncommitted changes"; exit 2; fi
git apply "$P" || { echo "patch does not apply"; exit 2; }
V=$(mktemp -d /tmp/trybenign.XXXXXX)
cp /verif/known_findings.json /verif/expected_obligations.json /verif/MANIFEST.json $V/
trap 'git -C /repo checkout -- . ; rm -rf $V' EXIT
PROPS=$(python3 -c "import json;print(' '.join(c['property_id'] for c in json.load(open('/verif/MANIFEST.json'))['checks']))")
echo $PROPS | tr ' ' '\n' | xargs -P 6 -I{} sh -c "VERIF_DIR=$V /verif/bin/govc check {} > $V/{}.out 2>&1 || echo 'ALARM {}'"
for f in $V/*.out; do grep -H "^FAILED" $f | sed "s|$V/||" | cut -c1-220; done
echo "done $ID"
