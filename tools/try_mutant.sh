#!/bin/sh
# usage: tools/try_mutant.sh <seeded-id> <property>...
# Applies /verif/seeded/<id>/patch.diff to /repo, runs the given quick checks
# against it (evidence and replays go to a scratch VERIF_DIR, not /verif), reverts.
set -u
ID=$1; shift
P=/verif/seeded/$ID/patch.diff
cd /repo || exit 2
if ! git diff --quiet; then echo "repo has uncommitted changes"; exit 2; fi
git apply "$P" || { echo "patch does not apply"; exit 2; }
V=$(mktemp -d /tmp/trymut.XXXXXX)
cp /verif/known_findings.json /verif/expected_obligations.json /verif/MANIFEST.json $V/
trap 'git -C /repo checkout -- . ; rm -rf $V' EXIT
for prop in "$@"; do
  echo "=== $ID vs $prop"
  VERIF_DIR=$V /verif/bin/govc check "$prop" > $V/out.txt 2>&1
  RC=$?
  grep -v "^KNOWN" $V/out.txt | tail -12
  echo "exit=$RC"
done
