#!/bin/sh
# usage: tools/try_mutant.sh <seeded-id> <property>...
# Applies /verif/seeded/<id>/patch.diff to /repo, runs the given checks, reverts.
set -u
ID=$1; shift
P=/verif/seeded/$ID/patch.diff
cd /repo || exit 2
if ! git diff --quiet; then echo "repo has uncommitted changes"; exit 2; fi
git apply "$P" || { echo "patch does not apply"; exit 2; }
trap 'git -C /repo checkout -- . ' EXIT
for prop in "$@"; do
  echo "=== $ID vs $prop"
  (cd /verif && ./check "$prop" quick 2>&1 | grep -v "^KNOWN" | tail -12)
  echo "exit=$?"
done
